"""Case scheduling: a fork pool of workers, per-case wall-clock alarm, crash fallback."""
import concurrent.futures as cf
import importlib
import json
import multiprocessing as mp
import os
import subprocess
import sys
import time
import traceback

from . import common, instrument as I


def _worker_init():
    os.environ["PYTHONHASHSEED"] = os.environ.get("PYTHONHASHSEED", "0")
    common.use_repo()
    I.install()
    if os.environ.get("VERIF_REACH", "1") == "1":
        I.reach_setup()


def run_one(modname, case, timeout):
    """Execute one case in this process; never raises."""
    t0 = time.time()
    try:
        mod = importlib.import_module(modname)
        with I.alarm(timeout):
            res = mod.run_case(case)
    except I.HarnessTimeout as ex:
        res = dict(status="inconclusive", note=f"wall-clock watchdog: {ex}", violations=[], cov={})
    except BaseException as ex:  # noqa: BLE001 - harness bug: report, never hide
        res = dict(status="inconclusive", violations=[], cov={},
                   note="harness error: " + "".join(
                       traceback.format_exception(type(ex), ex, ex.__traceback__))[-1500:],
                   harness_error=True)
    res.setdefault("violations", [])
    res.setdefault("cov", {})
    res.setdefault("status", "violated" if res["violations"] else "held")
    res["id"] = case.get("id")
    res["wall"] = time.time() - t0
    try:
        res["reach"] = I.reach_delta()
    except Exception:
        res["reach"] = []
    return res


def run_cases(modname, cases, workers=None, timeout=120, progress=None):
    """Run all cases; returns results in case order."""
    workers = workers or min(16, os.cpu_count() or 4)
    results = {}
    pending = list(range(len(cases)))
    ctx = mp.get_context("fork")
    broken = False
    try:
        with cf.ProcessPoolExecutor(max_workers=workers, mp_context=ctx,
                                    initializer=_worker_init) as ex:
            futs = {ex.submit(run_one, modname, cases[i], timeout): i for i in pending}
            for fut in cf.as_completed(futs):
                i = futs[fut]
                try:
                    results[i] = fut.result()
                except cf.process.BrokenProcessPool:
                    broken = True
                except BaseException as e:  # noqa: BLE001
                    results[i] = dict(id=cases[i].get("id"), status="inconclusive", violations=[],
                                      cov={}, note=f"future failed: {e!r}", reach=[])
                if progress:
                    progress(len(results), len(cases))
    except cf.process.BrokenProcessPool:
        broken = True
    if broken:
        # a worker died: re-run the outstanding cases one by one in fresh interpreters
        for i in range(len(cases)):
            if i in results:
                continue
            results[i] = run_isolated(modname, cases[i], timeout)
    return [results[i] for i in range(len(cases))]


def run_isolated(modname, case, timeout):
    """One case in a fresh interpreter (used after a worker crash and by C10)."""
    env = dict(os.environ)
    env.setdefault("PYTHONHASHSEED", "0")
    try:
        p = subprocess.run(
            [sys.executable, "-m", "vf.runner", modname], input=json.dumps(case),
            capture_output=True, text=True, timeout=timeout + 30, cwd=common.VERIF_DIR, env=env)
        if p.returncode != 0:
            return dict(id=case.get("id"), status="inconclusive", violations=[], cov={}, reach=[],
                        note=f"isolated worker exit {p.returncode}: {p.stderr[-500:]}")
        return json.loads(p.stdout.splitlines()[-1])
    except subprocess.TimeoutExpired:
        return dict(id=case.get("id"), status="inconclusive", violations=[], cov={}, reach=[],
                    note="isolated worker timed out")


def _jsonable(o):
    import numpy as np

    if isinstance(o, dict):
        return {str(k): _jsonable(v) for k, v in o.items()}
    if isinstance(o, (list, tuple, set)):
        return [_jsonable(v) for v in o]
    if isinstance(o, np.ndarray):
        return o.tolist()
    if isinstance(o, (np.floating,)):
        return float(o)
    if isinstance(o, (np.integer,)):
        return int(o)
    if isinstance(o, (np.bool_,)):
        return bool(o)
    if isinstance(o, (str, int, float, bool)) or o is None:
        return o
    return str(o)


if __name__ == "__main__":
    _worker_init()
    case = json.loads(sys.stdin.read())
    out = run_one(sys.argv[1], case, float(os.environ.get("VERIF_CASE_TIMEOUT", "600")))
    print(json.dumps(_jsonable(out)))
