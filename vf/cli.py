"""./check <ID> [--tier quick|thorough] [--seed N] [--replay FILE] [--workers N]

Exit 0: the property held on everything explored (listed known findings are printed as
KNOWN-FINDING lines).  Exit 1: at least one violation that is not a listed finding, each
reported as ``VIOLATION property=<id> replay=<path>``.  Exit 2: INCONCLUSIVE - no
violation, but a coverage floor was missed or too many cases could not be decided.
"""
import argparse
import collections
import importlib
import json
import os
import sys
import time

from . import common, findings as F, runner
from .runner import _jsonable

MAX_VIOLATION_LINES = 20


def load_prop(pid):
    return importlib.import_module(f"vf.props.{pid.lower()}")


def out_dir():
    """/verif for the real tree; a scratch directory when VERIF_REPO points the checks at a
    modified copy (so that experiments never overwrite the committed evidence)."""
    if common.REPO == "/repo":
        return common.VERIF_DIR
    d = os.environ.get("VERIF_OUT", "/tmp/vf-out")
    os.makedirs(d, exist_ok=True)
    return d


def load_floors(mod, tier):
    """Calibrated floors (vf/floors.json, see tools/calibrate_floors.py) or the module's literals."""
    path = os.path.join(os.path.dirname(os.path.abspath(__file__)), "floors.json")
    if os.path.exists(path):
        with open(path) as fh:
            fl = json.load(fh).get(mod.ID, {}).get(tier)
        if fl:
            return fl
    return getattr(mod, "FLOORS", {}).get(tier, {})


def merge_cov(results):
    tot = collections.Counter()
    for r in results:
        for k, v in (r.get("cov") or {}).items():
            if isinstance(v, (int, float)):
                tot[k] += v
    return tot


def ranges(nums):
    """[3,4,5,9] -> '3-5,9'"""
    out, i = [], 0
    while i < len(nums):
        j = i
        while j + 1 < len(nums) and nums[j + 1] == nums[j] + 1:
            j += 1
        out.append(str(nums[i]) if i == j else f"{nums[i]}-{nums[j]}")
        i = j + 1
    return ",".join(out)


def reach_report(mod, results):
    from . import instrument as I

    hits = collections.defaultdict(set)
    for r in results:
        for fn, ln in r.get("reach") or []:
            hits[fn].add(ln)
    rep = {}
    for rel in getattr(mod, "ANCHORS", []):
        try:
            total = I.executable_lines(rel)
        except Exception as ex:  # file moved by a refactor: say so
            rep[rel] = {"error": repr(ex)}
            continue
        got = sorted(set(total) & hits.get(rel, set()))
        missing = sorted(set(total) - hits.get(rel, set()))
        rep[rel] = {"lines_hit": len(got), "lines_total": len(total), "unreached": ranges(missing)}
    return rep


def write_evidence(mod, tier, seed, results, wall, n_viol, known_seen, floors_missed, extra):
    cov = merge_cov(results)
    keys = set()
    for r in results:
        if r.get("nontrivial") and r.get("key"):
            keys.add(r["key"])
    samples = [r["sample"] for r in results if r.get("sample")][:5]
    if not samples:
        samples = [{"note": "no case produced a sample"}]
    status = collections.Counter(r.get("status") for r in results)
    notes = collections.Counter()
    for r in results:
        if r.get("status") in ("inconclusive", "errored") and r.get("note"):
            notes[str(r["note"])[:160]] += 1
    ev = {
        "property_id": mod.ID, "tier": tier, "seed": int(seed), "level": "exploration",
        "coverage": {
            "evaluations": int(cov.get("executions", len(results))),
            "distinct_nontrivial": len(keys),
            "rule": mod.RULE,
            "samples": _jsonable(samples),
            "cases": len(results),
            "case_status": dict(status),
            "observed": {k: (int(v) if float(v).is_integer() else float(v))
                         for k, v in sorted(cov.items())},
            "floors": load_floors(mod, tier),
            "floors_missed": floors_missed,
            "known_findings_seen": known_seen,
            "inconclusive_notes": dict(notes.most_common(10)),
            "reach": reach_report(mod, results),
            "exhaustive": bool(extra.pop("exhaustive", False)) if extra else False,
        },
        "assumptions": list(getattr(mod, "ASSUMPTIONS", [])),
        "wall_s": round(wall, 2),
        "violations": int(n_viol),
    }
    if extra:
        ev["coverage"].update(_jsonable(extra))
    problems = check_evidence(ev)
    if problems:
        print("EVIDENCE-INVALID " + "; ".join(problems))
    os.makedirs(os.path.join(out_dir(), "evidence"), exist_ok=True)
    path = os.path.join(out_dir(), "evidence", f"{mod.ID}.json")
    with open(path, "w") as fh:
        json.dump(ev, fh, indent=1, sort_keys=True)
        fh.write("\n")
    return ev, problems


def check_evidence(ev):
    """Structural check mirroring EVIDENCE.schema.json (no jsonschema in /venv)."""
    p = []
    for k in ("property_id", "tier", "seed", "level", "coverage", "wall_s"):
        if k not in ev:
            p.append(f"missing {k}")
    c = ev.get("coverage", {})
    if not isinstance(c.get("evaluations"), int) or c.get("evaluations", 0) < 1:
        p.append("evaluations < 1")
    if not isinstance(c.get("distinct_nontrivial"), int) or c.get("distinct_nontrivial", 0) < 2:
        p.append("distinct_nontrivial < 2")
    if not isinstance(c.get("rule"), str):
        p.append("rule missing")
    if not isinstance(c.get("samples"), list) or not c.get("samples"):
        p.append("samples empty")
    return p


def main(argv=None):
    ap = argparse.ArgumentParser(prog="check")
    ap.add_argument("prop")
    ap.add_argument("--tier", default=os.environ.get("VERIF_TIER", "quick"),
                    choices=["quick", "thorough"])
    ap.add_argument("--seed", type=int, default=int(os.environ.get("VERIF_SEED", "0")))
    ap.add_argument("--replay")
    ap.add_argument("--workers", type=int, default=int(os.environ.get("VERIF_WORKERS", "0")) or None)
    ap.add_argument("--limit", type=int, default=0, help="debug: only the first N cases")
    ap.add_argument("--scale", type=float, default=float(os.environ.get("VERIF_SCALE", "1")))
    a = ap.parse_args(argv)
    pid = a.prop.upper()
    os.environ["PYTHONHASHSEED"] = os.environ.get("PYTHONHASHSEED", "0")
    common.use_repo()
    mod = load_prop(pid)
    known = F.load()

    if a.replay:
        with open(a.replay) as fh:
            rp = json.load(fh)
        res = runner.run_one(mod.__name__, rp["case"], 3600)
        print(json.dumps(_jsonable({k: v for k, v in res.items() if k != "reach"}), indent=1)[:20000])
        bad = [v for v in res["violations"] if not F.classify(pid, v, known)]
        if bad:
            print(f"VIOLATION property={pid} replay={a.replay}")
            return 1
        return 0

    t0 = time.time()
    os.environ["VERIF_SCALE"] = str(a.scale)
    cases = mod.cases(a.tier, a.seed)
    if a.limit:
        cases = cases[: a.limit]
    for i, c in enumerate(cases):
        c.setdefault("id", f"{pid}-{a.tier}-s{a.seed}-{i:05d}")
        c["tier"] = a.tier
    timeout = getattr(mod, "CASE_TIMEOUT", {}).get(a.tier, 180 if a.tier == "quick" else 900)
    results = runner.run_cases(mod.__name__, cases, workers=a.workers, timeout=timeout)
    extra = {}
    if hasattr(mod, "finalize"):
        extra = mod.finalize(cases, results, a.tier) or {}

    # classify
    new, known_seen = [], collections.OrderedDict()
    for case, r in zip(cases, results):
        fresh = []
        for v in r.get("violations") or []:
            f = F.classify(pid, v, known)
            if f is None:
                fresh.append(v)
            else:
                key = f.get("id") or f["what"]
                d = known_seen.setdefault(key, {"what": f["what"], "count": 0})
                d["count"] += 1
        if fresh:
            new.append((case, r, fresh))
    n_viol = sum(len(x[2]) for x in new)

    cov = merge_cov(results)
    floors = load_floors(mod, a.tier)
    sc = a.scale if a.scale < 1 else 1.0
    missed = {k: [int(cov.get(k, 0)), v] for k, v in floors.items() if cov.get(k, 0) < v * sc}
    n_inc = sum(1 for r in results if r.get("status") in ("inconclusive", "errored"))
    wall = time.time() - t0
    ev, problems = write_evidence(mod, a.tier, a.seed, results, wall, n_viol,
                                  {k: v for k, v in known_seen.items()}, missed, extra)

    for k, d in known_seen.items():
        print(f"KNOWN-FINDING: property={pid} {d['what']} (seen {d['count']}x)")
    notes = collections.Counter()
    for r in results:
        if r.get("status") in ("inconclusive", "errored"):
            notes[str(r.get("note"))[:200]] += 1
    for k, n in notes.most_common(8):
        print(f"NOTE {n}x {k}")
    print(f"SUMMARY property={pid} tier={a.tier} seed={a.seed} cases={len(results)} "
          f"evaluations={ev['coverage']['evaluations']} distinct_nontrivial="
          f"{ev['coverage']['distinct_nontrivial']} violations={n_viol} known={len(known_seen)} "
          f"inconclusive={n_inc} wall={wall:.1f}s")
    if new:
        rdir = os.path.join(out_dir(), "replays", pid)
        os.makedirs(rdir, exist_ok=True)
        for case, r, fresh in new[:MAX_VIOLATION_LINES]:
            path = os.path.join(rdir, f"{case['id']}.json")
            with open(path, "w") as fh:
                json.dump(_jsonable({"property": pid, "case": case, "violations": fresh[:10],
                                     "n_violations": len(fresh)}), fh, indent=1)
            v = fresh[0]
            print(f"VIOLATION property={pid} replay={path}")
            print(f"  clause={v['clause']} {v['msg'][:300]}")
        if len(new) > MAX_VIOLATION_LINES:
            print(f"... {len(new) - MAX_VIOLATION_LINES} more violating cases (see evidence)")
        return 1
    if problems:
        return 2
    if missed or n_inc > getattr(mod, "MAX_INCONCLUSIVE", 0.10) * max(1, len(results)):
        why = []
        if missed:
            why.append("coverage floors missed: " + json.dumps(missed))
        if n_inc:
            why.append(f"{n_inc}/{len(results)} cases inconclusive")
        print(f"INCONCLUSIVE property={pid} " + "; ".join(why))
        return 2
    return 0


if __name__ == "__main__":
    sys.exit(main())
