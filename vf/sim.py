"""Run one real simulation under instrumentation and return its Trace."""
import datetime as dt

import numpy as np

from . import common, instrument as I, spec as S


class RunResult:
    """Outcome of one traced run."""

    def __init__(self):
        self.trace = None
        self.model = None
        self.status = "ok"          # ok | rejected | error | abort | timeout
        self.exc = None             # (type name, message, site tuple, traceback text)
        self.tables = None          # (flux, storage, growth) ndarrays
        self.summary = None         # final_stats DataFrame
        self.finished = None
        self.kw = None
        self.exc_locals = {}        # scalar locals of the innermost model frame of the exception


PERMITTED = (
    ("ValueError", "sim_start_time format must be"),
    ("ValueError", "sim_end_time format must be"),
    ("ValueError", "The first date of the climate data cannot be longer"),
    ("ValueError", "The model end date cannot be longer"),
    ("ValueError", "Simulation period must be less than 580 years"),
    ("AssertionError", "not enough growing degree days"),
    ("AssertionError", "crop will take longer than 1 year to mature"),
)
PERMITTED_SITES = {
    "core", "initialize.read_weather_inputs", "initialize.read_clocks_parameters",
    "initialize.compute_crop_calendar", "timestep.reset_initial_conditions",
}


def permitted_rejection(exc):
    """Is this one of the documented input rejections (C16)?"""
    if exc is None:
        return False
    tname, msg, site = exc[0], exc[1], exc[2]
    for t, m in PERMITTED:
        if tname == t and m in msg:
            return site[0] in PERMITTED_SITES
    return False


def exc_info(ex):
    import traceback

    return (type(ex).__name__, str(ex)[:200], I.exc_site(ex),
            "".join(traceback.format_exception(type(ex), ex, ex.__traceback__))[-3000:])


def snapshot_init(model, trace):
    ps = model._param_struct
    prof = ps.Soil.Profile
    ic = model._init_cond
    cs = model._clock_struct
    p = trace.init
    for k in I.PROFILE_GEOM + I.PROFILE_HYD:
        p[k] = np.array(getattr(prof, k))
    trace.dz0 = np.array(prof.dz, dtype=float)
    p["th_init"] = np.array(ic.th, dtype=float)
    p["thini"] = np.array(ic.thini, dtype=float)
    p["th_is_thini"] = ic.th is ic.thini
    p["pond_init"] = float(ic.surface_storage)
    p["thfc_adj_init"] = np.array(ic.th_fc_Adj, dtype=float)
    p["n_span"] = len(cs.time_span)
    p["span0"] = cs.time_span[0]
    p["planting"] = [x for x in cs.planting_dates]
    p["harvest"] = [x for x in cs.harvest_dates]
    p["n_seasons"] = int(cs.n_seasons)
    p["season0"] = int(cs.season_counter)
    p["off"] = bool(cs.sim_off_season)
    p["water_table"] = int(ps.water_table)
    p["z_gw_series"] = np.array(ps.z_gw, dtype=float)
    p["fm"] = dict(ps.FieldMngt.__dict__)
    p["ffm"] = dict(ps.FallowFieldMngt.__dict__)
    p["irr"] = {k: (np.array(v) if isinstance(v, np.ndarray) else v)
                for k, v in ps.IrrMngt.__dict__.items()}
    p["soil"] = {k: getattr(ps.Soil, k, None) for k in I.SOIL_SCALARS}
    p["crops"] = ps.Seasonal_Crop_List          # live objects; read at season starts
    p["crop0"] = {k: v for k, v in ps.Seasonal_Crop_List[0].__dict__.items()} \
        if ps.Seasonal_Crop_List else {}
    p["groups"] = I.param_groups(ps)
    p["weather_dig"] = I.weather_digest(model._weather)
    trace.max_steps = len(cs.time_span)


def run(spec, opts=None, kw=None, init_budget=400_000, stepping=None, keep_model=False,
        fp_trap=True):
    """Build, initialise and run the model of ``spec`` under a Trace.

    ``stepping``: None -> one ``run_model(till_termination=True)``; otherwise a list of
    step counts executed as ``run_model(num_steps=k, initialize_model=False)`` calls.
    """
    common.use_repo()
    I.install()
    I.watchdog_setup()
    res = RunResult()
    tr = I.Trace(opts)
    tr.phase = "build"
    res.trace = tr
    prev_active = I.ACTIVE
    I.ACTIVE = tr
    errctx = np.errstate(all="call") if fp_trap else np.errstate()
    old_cb = np.seterrcall(I.fp_callback_for(tr)) if fp_trap else None
    try:
        with errctx:
            try:
                if kw is None:
                    kw = S.build(spec)
                res.kw = kw
                from aquacrop import AquaCropModel

                model = AquaCropModel(**kw)
                res.model = model
                tr.phase = "init"
                I.watchdog_arm(init_budget)
                model._initialize()
                I.watchdog_disarm()
                snapshot_init(model, tr)
                if tr.o["spy"]:
                    I.spy_on_weather(model, tr)
                if tr.o["protect"]:
                    I.protect(model, tr)
                tr.phase = "run"
                I.watchdog_arm(5_000_000)
                if stepping is None:
                    model.run_model(till_termination=True, initialize_model=False)
                elif isinstance(stepping, tuple) and stepping[0] == "random":
                    # random composition; a call never starts after termination
                    srng = np.random.default_rng(int(stepping[1]))
                    parts = []
                    while not model._clock_struct.model_is_finished:
                        kstep = int(srng.choice([1, 1, 2, 3, 7, 30, 365, 10 ** 6]))
                        parts.append(kstep)
                        model.run_model(num_steps=kstep, initialize_model=False)
                    tr.parts = parts
                else:
                    for kstep in stepping:
                        model.run_model(num_steps=int(kstep), initialize_model=False)
                I.watchdog_disarm()
                tr.phase = "done"
                res.finished = bool(model._clock_struct.model_is_finished)
                out = model._outputs
                res.tables = tuple(np.asarray(getattr(x, "values", x), dtype=float)
                                   for x in (out.water_flux, out.water_storage, out.crop_growth))
                res.summary = out.final_stats
                reconcile_tables(res)
                if tr.o["digests"] or tr.o["protect"]:
                    tr.wdig.append(("end", I.weather_digest(model._weather)))
            except I.HarnessTimeout as ex:
                res.status, res.exc = "timeout", exc_info(ex)
            except I.HarnessAbort as ex:
                res.status, res.exc = "abort", exc_info(ex)
                res.exc_locals = I.exc_locals(ex)
            except Exception as ex:  # noqa: BLE001 - everything the model raises is an outcome
                res.exc = exc_info(ex)
                res.status = "rejected" if permitted_rejection(res.exc) else "error"
    finally:
        I.watchdog_disarm()
        I.ACTIVE = prev_active
        if fp_trap:
            np.seterrcall(old_cb)
        if not keep_model:
            pass
    return res


def reconcile_tables(res):
    """The row monitors must judge what the user is handed by the getters.  The step tap copied
    each row right after the step; replace it by the row of the final table (keeping the tapped
    copy) and count the rows that differ - a post-processing step that rewrites outputs is then
    seen by every row monitor instead of by none."""
    tr = res.trace
    flux, stor, growth = res.tables
    n = 0
    first = None
    for s in tr.steps:
        t = s["t"]
        if t >= len(flux):
            continue
        for key, tab in (("flux", flux), ("stor_row", stor), ("growth", growth)):
            a, b = s[key], tab[t]
            if a.shape != b.shape or not np.array_equal(a, b, equal_nan=True):
                n += 1
                if first is None:
                    j = int(np.argmax(~((a == b) | (np.isnan(a) & np.isnan(b))))) if a.shape == b.shape else -1
                    first = dict(t=t, table=key, col=j, step_value=float(a[j]) if j >= 0 else None,
                                 reported=float(b[j]) if j >= 0 else None)
                s[key + "_tap"] = a
                s[key] = np.array(b, dtype=float)
    # one row per day of the window in each table
    want_rows = tr.init.get("n_span")
    if want_rows is not None:
        for key, tab in (("flux", flux), ("stor_row", stor), ("growth", growth)):
            if len(tab) != want_rows:
                n += abs(int(want_rows) - len(tab))
                if first is None:
                    first = dict(t=min(len(tab), int(want_rows)), table=key, col=0, step_value=None,
                                 reported=float("nan"), rows=len(tab), expected_rows=int(want_rows))
    # rows of days no step was executed for (skipped off-season days, days after termination)
    # must be empty: anything there was not produced by this run
    done = np.zeros(len(flux), dtype=bool)
    for s in tr.steps:
        if s["t"] < len(done):
            done[s["t"]] = True
    tr.rows_unexecuted = int((~done).sum())
    tr.ghost_rows = 0
    if tr.rows_unexecuted:
        for key, tab in (("flux", flux), ("storage", stor), ("growth", growth)):
            sub = np.asarray(tab)[~done]
            bad = np.flatnonzero(np.any((sub != 0) | np.isnan(sub), axis=1))
            if len(bad):
                tr.ghost_rows += len(bad)
                if first is None:
                    t = int(np.flatnonzero(~done)[bad[0]])
                    j = int(np.argmax((np.asarray(tab)[t] != 0) | np.isnan(np.asarray(tab)[t])))
                    first = dict(t=t, table=key if key != "storage" else "stor_row", col=j, step_value=None,
                                 reported=float(np.asarray(tab)[t][j]), ghost=True)
    tr.table_mismatch = n + tr.ghost_rows
    tr.table_mismatch_first = first


def tables_digest(res):
    """SHA-256 over the three daily tables and the summary values (C10 etc.)."""
    import hashlib

    h = hashlib.sha256()
    for a in res.tables:
        h.update(str(a.shape).encode())
        h.update(np.ascontiguousarray(a).tobytes())
    sm = res.summary
    h.update(repr(list(sm.columns)).encode())
    for col in sm.columns:
        for v in sm[col].tolist():
            if isinstance(v, (float, np.floating)):
                h.update(np.float64(v).tobytes())
            else:
                h.update(repr(v).encode())
    return h.hexdigest()


def executed_mask(res):
    """Boolean mask of table rows that were actually executed (from the I1 tap)."""
    m = np.zeros(len(res.tables[0]), dtype=bool)
    for s in res.trace.steps:
        m[s["t"]] = True
    return m


def date_of(trace, t):
    return (trace.init["span0"] + dt.timedelta(days=int(t))).date() \
        if hasattr(trace.init["span0"], "date") else None
