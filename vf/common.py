"""Shared constants and the switch that selects the tree under observation.

The code under test is imported from ``VERIF_REPO`` (default ``/repo``) by putting that
directory first on ``sys.path``.  ``sys.path[0]`` wins over the editable-install finder
that maps ``aquacrop`` to ``/repo`` (setuptools appends that finder after the standard
``PathFinder``), so the very same checks can be pointed at a scratch copy.
"""
import os
import sys
import warnings

VERIF_DIR = os.path.dirname(os.path.dirname(os.path.abspath(__file__)))
REPO = os.path.abspath(os.environ.get("VERIF_REPO", "/repo"))
GUARD = "AQUACROP_VERIF"

FLUX_COLS = (
    "time_step_counter season_counter dap Wr z_gw surface_storage IrrDay Infl Runoff "
    "DeepPerc CR GwIn Es EsPot Tr TrPot"
).split()
FX = {c: i for i, c in enumerate(FLUX_COLS)}
GROWTH_COLS = (
    "time_step_counter season_counter dap gdd gdd_cum z_root canopy_cover canopy_cover_ns "
    "biomass biomass_ns harvest_index harvest_index_adj DryYield FreshYield YieldPot"
).split()
GX = {c: i for i, c in enumerate(GROWTH_COLS)}
SUMMARY_COLS = [
    "Season",
    "crop Type",
    "Harvest Date (YYYY/MM/DD)",
    "Harvest Date (Step)",
    "Dry yield (tonne/ha)",
    "Fresh yield (tonne/ha)",
    "Yield potential (tonne/ha)",
    "Seasonal irrigation (mm)",
]

SOILS = [
    "Clay", "ClayLoam", "Default", "Loam", "LoamySand", "Sand", "SandyClay",
    "SandyClayLoam", "SandyLoam", "Silt", "SiltClayLoam", "SiltLoam", "SiltClay",
    "Paddy", "ac_TunisLocal",
]
# number of layers of the two built-in layered soils
SOIL_LAYERS = {"Paddy": 2, "ac_TunisLocal": 2}

CLIMATE_FILES = [
    "brussels_climate.txt", "cambridge_climate.txt", "champion_climate.txt",
    "cordoba_climate.txt", "hyderabad_climate.txt", "lincolnshire_climate.txt",
    "norfolk_climate.txt", "north_yorks_climate.txt", "northumberland_climate.txt",
    "suffolk_climate.txt", "tunis_climate.txt",
]


def use_repo():
    """Make ``import aquacrop`` resolve to REPO; must run before the first import."""
    if "aquacrop" in sys.modules:
        mod = sys.modules["aquacrop"]
        got = os.path.dirname(os.path.dirname(os.path.abspath(mod.__file__)))
        if got != REPO:
            raise RuntimeError(f"aquacrop already imported from {got}, wanted {REPO}")
        return
    if sys.path[0] != REPO:
        sys.path.insert(0, REPO)
    warnings.filterwarnings("ignore")
    os.environ.setdefault(GUARD, "1")
    import aquacrop  # noqa: F401

    got = os.path.dirname(os.path.dirname(os.path.abspath(aquacrop.__file__)))
    if got != REPO:
        raise RuntimeError(f"aquacrop imported from {got}, wanted {REPO}")


def crop_catalogue():
    use_repo()
    from aquacrop.entities.crops.crop_params import crop_params

    return crop_params


def crop_names():
    return list(crop_catalogue().keys())


def cd_crops():
    return [c for c, v in crop_catalogue().items() if v["CalendarType"] == 1]


def gdd_crops():
    return [c for c, v in crop_catalogue().items() if v["CalendarType"] == 2]
