"""pytest plugin (DESIGN.md 8.3): run the repository's own tests with the step tap, the process
ledger and the row monitors switched on, to see whether a contract fires on the maintainers' own
scenarios.   Used by tools/repo_tests_monitored.sh:

    cd <copy of repo> && PYTHONPATH=/verif python -m pytest -p vf.pytest_plugin tests
"""
import json
import os

import numpy as np

RESULTS = []


def pytest_configure(config):
    os.environ.setdefault("VERIF_REPO", os.getcwd())
    from . import common, instrument as I, sim

    common.use_repo()
    I.install()
    from aquacrop.core import AquaCropModel

    orig_init = AquaCropModel._initialize
    orig_run = AquaCropModel.run_model

    def _initialize(self):
        tr = I.Trace(dict(ledger=True, irr=True, biomass=True, contracts=True))
        tr.phase = "init"
        self._vf_trace = tr
        self._vf_user_weather = self.weather_df
        r = orig_init(self)
        sim.snapshot_init(self, tr)
        tr.phase = "run"
        return r

    def run_model(self, *a, **k):
        prev = I.ACTIVE
        try:
            # activate the trace of this model for the duration of the call
            init = k.get("initialize_model", a[2] if len(a) > 2 else True)
            if not init and getattr(self, "_vf_trace", None) is not None:
                I.ACTIVE = self._vf_trace
            else:
                I.ACTIVE = None
                # _initialize creates the trace; activate right after through a shim
                def shim():
                    _initialize(self)
                    I.ACTIVE = self._vf_trace
                self._initialize = shim
            out = orig_run(self, *a, **k)
        finally:
            I.ACTIVE = prev
            if "_initialize" in self.__dict__:
                del self.__dict__["_initialize"]
        tr = getattr(self, "_vf_trace", None)
        if tr is not None and self._clock_struct.model_is_finished and not getattr(tr, "_judged", False):
            tr._judged = True
            judge(self, tr)
        return out

    AquaCropModel.run_model = run_model


def judge(model, tr):
    from . import sim, spec as S
    from .props import base, c01, c02, c03, c04, c05, c06, c07, c13

    im = model.irrigation_management
    kw = {k: getattr(im, k) for k in ("AppEff", "MaxIrr", "MaxIrrSeason", "IrrInterval", "depth", "WetSurf", "NetIrrSMT")
          if hasattr(im, k)}
    kw["SMT"] = [float(x) for x in np.asarray(im.SMT).tolist()]
    sched = None
    if int(im.irrigation_method) == 3 and hasattr(im.Schedule, "columns"):
        sched = [[str(d.date()).replace("-", "/"), float(v)] for d, v in zip(im.Schedule["Date"], im.Schedule["Depth"])]
    spec = {"start": model.sim_start_time, "end": model.sim_end_time, "off_season": bool(model.off_season),
            "crop": {"name": model.crop.Name, "planting": model.crop.planting_date, "harvest": None, "kw": {}},
            "soil": {"type": "custom", "layers": [], "kw": {}}, "weather": {"kind": "user"},
            "irr": {"method": int(im.irrigation_method), "kw": kw, "schedule": sched},
            "gw": None if model.groundwater.water_table == "N" else {"method": model.groundwater.method,
                                                                     "dates": list(model.groundwater.dates),
                                                                     "values": list(model.groundwater.values)}}
    res = sim.RunResult()
    res.trace = tr
    res.model = model
    res.kw = {"weather_df": model._vf_user_weather}
    out = model._outputs
    res.tables = tuple(np.asarray(getattr(x, "values", x), dtype=float)
                       for x in (out.water_flux, out.water_storage, out.crop_growth))
    res.summary = out.final_stats
    res.finished = True
    rec = {"crop": model.crop.Name, "window": f"{model.sim_start_time}..{model.sim_end_time}",
           "irr": int(im.irrigation_method), "steps": len(tr.steps), "violations": {}, "calls": dict(tr.n)}
    for mod in (c01, c02, c03, c04, c05, c06, c07, c13):
        acc = base.Acc(None)
        acc.spec_feats = {}
        try:
            mod.monitor(spec, res, acc)
        except Exception as ex:  # noqa: BLE001
            rec["violations"][mod.ID] = [f"monitor error: {ex!r}"]
            continue
        if acc.v:
            rec["violations"][mod.ID] = [f"{v['clause']}: {v['msg'][:200]}" for v in acc.v[:5]]
    RESULTS.append(rec)


def pytest_sessionfinish(session, exitstatus):
    path = os.environ.get("VERIF_MONITORED_OUT", "/tmp/vf-out/repo_tests_monitored.json")
    os.makedirs(os.path.dirname(path), exist_ok=True)
    with open(path, "w") as fh:
        json.dump(RESULTS, fh, indent=1, default=str)
    nv = sum(1 for r in RESULTS if r["violations"])
    print(f"\n[vf] monitored {len(RESULTS)} model runs of the repository's tests, "
          f"{sum(r['steps'] for r in RESULTS)} steps; runs with monitor reports: {nv} -> {path}")
