"""Violations, their mechanism-level signature, and the known-findings classifier.

A violation matches a listed finding only if property, monitor clause, and every key of
the finding's ``predicate`` (compared with the violation's ``features``) agree, plus the
call ``site`` when the finding names one.  Predicates are mechanisms (``crop has no
YldWC``), never seeds, hashes or random values.  ``fixed`` entries suppress nothing.
The file is read only; nothing is ever added at run time.
"""
import json
import os

from . import common

PATH = os.path.join(common.VERIF_DIR, "known_findings.json")


def load():
    if not os.path.exists(PATH):
        return []
    with open(PATH) as fh:
        data = json.load(fh)
    return data["findings"] if isinstance(data, dict) else data


def violation(clause, msg, witness=None, features=None, site=None):
    return dict(clause=clause, msg=msg, witness=witness or {}, features=features or {},
                site=site)


def matches(finding, prop, v):
    if finding.get("status") != "known":
        return False
    if finding.get("property") != prop:
        return False
    cl = finding.get("clause")
    if isinstance(cl, list):
        if v["clause"] not in cl:
            return False
    elif cl != v["clause"]:
        return False
    if finding.get("site") and finding["site"] != (v.get("site") or ""):
        return False
    feats = v.get("features") or {}
    for k, want in (finding.get("predicate") or {}).items():
        if feats.get(k) != want:
            return False
    return True


def classify(prop, v, findings):
    for f in findings:
        if matches(f, prop, v):
            return f
    return None
