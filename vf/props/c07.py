"""C07 The simulation calendar is exact - reference calendar model replayed over the step trace."""
import datetime as dt

import numpy as np

from .. import common, gen, sim, spec as S
from . import base
from .base import FX, GX

ID = "C07"
ANCHORS = ["timestep/update_time.py", "timestep/check_if_model_is_finished.py",
           "timestep/run_single_timestep.py", "initialize/read_model_parameters.py",
           "initialize/read_clocks_parameters.py"]
RULE = ("window shapes: start on / 1-60 days before the planting date, end after harvest / "
        "mid-season / on the planting anniversary +-1 day / 28 Feb of a leap year / long, 1-4 "
        "seasons incl. seasons spanning New Year, off-season on/off, early user harvest dates, "
        "crops of 90-365 days (a twelve-month crop harvested on the planting anniversary), thermal crops; one third of the runs are stepped through a random "
        "composition of run_model(num_steps=k) calls; non-trivial = >= 20 executed steps and >= 1 "
        "in-season day; distinct = (spec digest, stepping)")
ASSUMPTIONS = [
    "dates are derived with datetime arithmetic from start/end/planting MM/DD, independently of pandas",
    "the number of scheduled seasons and the latest harvest dates are read from the model's clock; the planting dates are checked against the reference",
    "maturity thresholds are read from that season's crop object; the degree days a thermal crop has accumulated are recomputed from the user's temperature records since that season's planting date (configured method and thresholds) and the model's own counter is compared against them",
]
FLOORS = {
    "quick": {"harvest_date_checks": 1, "table_rows_unexecuted_checked": 1, "steps": 40000, "window_classes": 60, "season_jumps": 60, "end_by_date": 50,
              "end_by_harvest": 50, "ends_mature": 200, "ends_dead": 5, "ends_harvest_date": 10,
              "stepped_runs": 50, "plantings": 300, "thermal_time_checks": 2000},
    "thorough": {"harvest_date_checks": 1, "table_rows_unexecuted_checked": 1, "steps": 400000, "window_classes": 120, "season_jumps": 600, "end_by_date": 500,
                 "end_by_harvest": 500, "ends_mature": 2000, "ends_dead": 50, "ends_harvest_date": 100,
                 "stepped_runs": 500, "plantings": 3000, "thermal_time_checks": 20000},
}


def cases(tier, seed):
    n = base.n_cases(360, 3600, tier)
    out = []
    pres = [0, 1, 5, 30, 60]
    shapes = ["after", "mid", "anniv", "long", "feb29", "after"]
    for i in range(n):
        rng = gen.rng_for(seed, ID, i)
        pre = pres[i % len(pres)]
        shape = shapes[(i // len(pres)) % len(shapes)]
        off = bool((i // 30) % 2)
        kw = dict(seasons=(1, 4), off_season=off, pre=(pre,), end_shape=shape, p_gw=0.05,
                  p_custom=0.1, p_co2=0.1, harvest_early=0.25, p_file=0.3, limits=0.1)
        if i % 7 == 3:
            kw.update(dry=True, regimes=["arid", "hot"], methods=(0,), p_file=0.0)  # crop death
        if i % 11 == 5:
            # planting late in the year: the season spans New Year
            kw["planting"] = f"{int(rng.integers(10, 13)):02d}/{int(rng.integers(1, 29)):02d}"
        if i % 13 == 7:
            kw.update(crops=["SugarCane"], harvest_early=0.0)
        sp = gen.config(rng, **kw)
        if i % 13 == 7:
            # a twelve-month crop whose latest harvest date is the anniversary of planting
            sp["crop"]["harvest"] = sp["crop"]["planting"]
        if i % 7 == 3:
            sp["weather"].setdefault("params", {}).update(pwet=0.0, pstorm=0.0)
        if common.crop_catalogue()[sp["crop"]["name"]]["CalendarType"] == 2 and i % 2 == 0:
            sp["weather"]["whole_degrees"] = True      # exact hits of the thermal thresholds
        c = {"spec": sp, "cls": f"{pre}/{shape}/{int(off)}"}
        if i % 3 == 2:
            c["stepping"] = int(rng.integers(0, 2 ** 31 - 1))
        out.append(c)
    return out


def expected_plantings(start, planting, n):
    m, d_ = [int(x) for x in planting.split("/")]
    first = dt.date(start.year, m, d_)
    if first < start:
        first = dt.date(start.year + 1, m, d_)
    return [dt.date(first.year + i, m, d_) for i in range(n)]


def monitor(spec, res, acc, complete=True):
    tr = res.trace
    p = tr.init
    cov = acc.cov
    S0 = S.d(spec["start"])
    E0 = S.d(spec["end"])
    n_span = (E0 - S0).days + 1
    if p["n_span"] != n_span:
        acc.add("time-span", f"the model's time span has {p['n_span']} days, the window has {n_span}", {})
    off = bool(spec.get("off_season"))
    nse = p["n_seasons"]
    pl = [x.date() for x in p["planting"]]
    hd = [x.date() for x in p["harvest"]]
    exp_pl = expected_plantings(S0, spec["crop"]["planting"], max(nse, 1) + 60)
    exp_set = set(exp_pl)
    if pl != exp_pl[:nse]:
        acc.add("planting-dates", f"scheduled planting dates {pl[:4]} differ from the planting day of "
                f"consecutive years starting on/after the start date {exp_pl[:4]}",
                dict(model=[str(x) for x in pl[:5]], expected=[str(x) for x in exp_pl[:5]]))
    # ---- number of scheduled seasons -----------------------------------------------------
    # every planting date P with start <= P < end starts a season; for a crop whose season runs
    # into the next calendar year the model (documented quirk, D12) only schedules seasons whose
    # harvest year lies inside the window, i.e. plantings in years before the end year
    if pl and hd:
        spanning = hd[0].year > pl[0].year
        cand = [x for x in exp_pl if x < E0]
        if spanning:
            cand = [x for x in cand if x.year < E0.year]
        cov["season_count_checks"] += 1
        if nse != len(cand):
            acc.add("season-count", f"{nse} seasons scheduled ({[str(x) for x in pl[-2:]]} last), but the window "
                    f"{S0}..{E0} contains {len(cand)} planting dates that start a season (last {cand[-1] if cand else None})",
                    dict(scheduled=nse, expected=len(cand), spanning=spanning, end=str(E0)))
    # ---- latest harvest dates ---------------------------------------------------------------
    # one month/day for all seasons (the configured one if the user gave one, else whatever the
    # model derived for the first season), in the planting year if it lies after the planting
    # day in the calendar, else in the following year
    if hd:
        if spec["crop"].get("harvest"):
            hm, hd_ = [int(x) for x in spec["crop"]["harvest"].split("/")]
        else:
            hm, hd_ = hd[0].month, hd[0].day
        pm, pd_ = [int(x) for x in spec["crop"]["planting"].split("/")]
        for i, h in enumerate(hd):
            cov["harvest_date_checks"] += 1
            if (h.month, h.day) != (hm, hd_):
                acc.add("harvest-date-binding", f"latest harvest date {h} of season {i} is not on "
                        f"{hm:02d}/{hd_:02d} ({'configured' if spec['crop'].get('harvest') else 'as in season 0'})",
                        dict(season=i, harvest=str(h)))
                break
            if i < len(pl) and h.year != pl[i].year + (0 if (pm, pd_) < (hm, hd_) else 1):
                acc.add("harvest-date-binding", f"latest harvest date {h} of season {i} planted {pl[i]} is not "
                        "the first such day after planting", dict(season=i, harvest=str(h), planting=str(pl[i])))
                break
    prev = None
    seen = set()
    season_end = {}
    # thermal time of a season = degree days of the user's temperature records from that season's
    # planting date on, with the *configured* method and thresholds (catalogue + keywords): the
    # model's own gdd_cum is only compared against it, never trusted
    cat = dict(common.crop_catalogue().get(spec["crop"]["name"], {}))
    cat.update(spec["crop"].get("kw", {}))
    thermal_ref = int(cat.get("CalendarType", 1)) == 2 and int(cat.get("SwitchGDD", 0)) != 1 \
        and "Tupp" in cat and "Tbase" in cat and getattr(res, "kw", None) is not None
    wl = base.weather_lookup(res.kw) if thermal_ref else None
    ref_cum = 0.0
    mat_checked = set()
    for s in tr.steps:
        t = s["t"]
        cov["steps"] += 1
        day = S0 + dt.timedelta(days=t)
        sc = s["sc"]
        if t in seen:
            acc.add("step-repeated", f"step {t} executed twice", dict(t=t))
        seen.add(t)
        if not (0 <= t <= n_span - 2):
            acc.add("step-out-of-window", f"step {t} executed; the last day that can be simulated is "
                    f"step {n_span - 2} (end date - 1 day)", dict(t=t, n_span=n_span))
        if s["date"].date() != day:
            acc.add("step-date", f"step {t} ran with date {s['date'].date()}, expected {day}", dict(t=t))
        if prev is not None and t <= prev["t"]:
            acc.add("step-order", f"step {t} executed after step {prev['t']}", dict(t=t))
        for name, row in (("water_flux", s["flux"]), ("crop_growth", s["growth"]), ("water_storage", s["stor_row"])):
            if row[0] != t:
                acc.add("row-index", f"{name} row of step {t} carries time_step_counter {row[0]!r}", dict(t=t, table=name))
        if s["flux"][FX["season_counter"]] != sc or s["growth"][GX["season_counter"]] != sc:
            acc.add("row-season", f"row of step {t} carries season {s['flux'][1]!r}, the clock says {sc}", dict(t=t))
        if s["flux"][FX["dap"]] != s["dap"] or s["growth"][GX["dap"]] != s["dap"] or s["stor_row"][2] != s["dap"]:
            acc.add("row-dap", f"row of step {t}: dap columns disagree with the state ({s['dap']})", dict(t=t))
        if s["stor_row"][1] != (1 if s["gs"] else 0):
            acc.add("row-growing-season", f"water_storage row of step {t}: growing_season column "
                    f"{s['stor_row'][1]!r} vs state {s['gs']}", dict(t=t))
        # ---- days after planting ----------------------------------------------------
        if s["gs"]:
            cov["in_season"] += 1
            if day in exp_set:
                cov["plantings"] += 1
                if s["dap"] != 1:
                    acc.add("dap-at-planting", f"step {t} ({day}) is a planting date but dap={s['dap']}", dict(t=t))
                if sc < 0 or sc >= len(exp_pl) or exp_pl[sc] != day:
                    acc.add("season-index", f"planting date {day} simulated as season {sc}", dict(t=t))
            else:
                ok = prev is not None and prev["gs"] and prev["t"] == t - 1 and s["dap"] == prev["dap"] + 1 \
                    and prev["sc"] == sc
                if not ok:
                    acc.add("dap-chain", f"step {t} ({day}): dap={s['dap']} does not continue the count "
                            f"(previous executed step {None if prev is None else (prev['t'], prev['dap'], prev['gs'])})",
                            dict(t=t, dap=s["dap"]))
            if sc in season_end:
                acc.add("in-season-after-end", f"step {t} is in-season for season {sc}, which ended at step "
                        f"{season_end[sc][0]} ({season_end[sc][1]})",
                        dict(t=t, season=sc, ended=season_end[sc][0], reason=season_end[sc][1]),
                        dict(end_reason=season_end[sc][1]))
        else:
            if s["dap"] != 0:
                acc.add("dap-off-season", f"step {t}: out of season but dap={s['dap']}", dict(t=t))
            if day in exp_set and exp_pl.index(day) < nse and not (sc in season_end):
                # a scheduled planting date inside the window that is not simulated in-season
                acc.add("planting-missed", f"step {t} ({day}) is the planting date of season "
                        f"{exp_pl.index(day)} but is simulated out of season", dict(t=t))
        # ---- thermal time since this planting date ------------------------------------
        if thermal_ref and s["gs"] and sc >= 0 and sc not in season_end and day in wl:
            from .c16 import ref_gdd
            rec = wl[day]
            g = float(ref_gdd(int(cat.get("GDDmethod", 3)), float(cat["Tupp"]), float(cat["Tbase"]), rec[1], rec[0]))
            ref_cum = g if s["dap"] == 1 else ref_cum + g
            cov["thermal_time_checks"] += 1
            if abs(float(s["gdd_cum"]) - ref_cum) > 1e-6 * max(1.0, abs(ref_cum)):
                acc.add("thermal-time", f"step {t} ({day}), season {sc}, dap {s['dap']}: accumulated degree days "
                        f"{s['gdd_cum']!r}, the temperature records since the planting date give {ref_cum!r}",
                        dict(t=t, season=sc, dap=int(s["dap"])))
                thermal_ref = False
        # ---- season end ----------------------------------------------------------------
        if s["gs"] and sc >= 0 and sc not in season_end:
            cr = tr.season_crop.get(sc, {})
            cal = int(cr.get("CalendarType", 0))
            mat = float(cr.get("Maturity", np.inf))
            mkey = "MaturityCD" if cal == 1 else "Maturity"
            if float(cat.get(mkey, -9)) > 0 and int(cat.get("SwitchGDD", 0)) != 1 and int(cat.get("CalendarType", 0)) == cal \
                    and sc not in mat_checked:
                # the threshold itself is configuration (catalogue + keywords), in every season
                mat_checked.add(sc)
                cov["maturity_threshold_checks"] += 1
                if abs(mat - float(cat[mkey])) > 1e-9:
                    acc.add("maturity-threshold", f"season {sc}: the crop matures at {mat!r} "
                            f"({'days' if cal == 1 else 'degree days'}), configured {float(cat[mkey])!r}",
                            dict(season=sc, model=mat, configured=float(cat[mkey])))
            matured = (cal == 1 and s["dap"] >= mat) or (cal == 2 and s["gdd_cum"] >= mat)
            if s["mature"] != matured:
                acc.add("maturity-flag", f"step {t}: crop_mature={s['mature']} but dap={s['dap']}, "
                        f"gdd_cum={s['gdd_cum']!r}, maturity threshold {mat} (calendar type {cal})", dict(t=t))
            by_date = sc < len(hd) and day + dt.timedelta(days=1) == hd[sc]
            ended = matured or s["dead"] or by_date
            if ended:
                reason = "maturity" if matured else ("death" if s["dead"] else "harvest-date")
                season_end[sc] = (t, reason)
                cov["ends_" + {"maturity": "mature", "death": "dead", "harvest-date": "harvest_date"}[reason]] += 1
                if not s["hf"]:
                    acc.add("end-without-harvest", f"season {sc} ended at step {t} ({reason}) but the harvest "
                            "flag was not raised", dict(t=t))
            elif s["hf"]:
                acc.add("harvest-without-reason", f"step {t}: harvest flag raised although the crop is neither "
                        f"mature nor dead and the latest harvest date {hd[sc] if sc < len(hd) else None} is not reached",
                        dict(t=t, dap=s["dap"]))
        # ---- gaps --------------------------------------------------------------------
        if prev is not None:
            gap = t - prev["t"]
            ended_prev = prev["sc"] in season_end and season_end[prev["sc"]][0] == prev["t"]
            if gap != 1:
                if off:
                    acc.add("gap-with-off-season", f"steps {prev['t'] + 1}..{t - 1} skipped although the "
                            "off-season is simulated", dict(a=prev["t"], b=t))
                else:
                    cov["season_jumps"] += 1
                    if not (ended_prev and day in exp_set and exp_pl.index(day) == prev["sc"] + 1):
                        acc.add("bad-jump", f"run jumped from step {prev['t']} to step {t} ({day})",
                                dict(a=prev["t"], b=t, ended_prev=ended_prev))
            else:
                if (not off) and ended_prev and not (day in exp_set and exp_pl.index(day) == prev["sc"] + 1):
                    acc.add("no-jump-after-harvest", f"season {prev['sc']} ended at step {prev['t']} but "
                            f"step {t} ({day}) was simulated although the off-season is not", dict(a=prev["t"], b=t))
        else:
            if t != 0:
                acc.add("first-step", f"the first executed step is {t}, not 0", dict(t=t))
        prev = s
    if not complete or prev is None:
        return False
    # ---- termination ---------------------------------------------------------------
    last = prev
    by_date = last["t"] == n_span - 2
    by_harvest = last["sc"] == nse - 1 and last["hf"]
    if not (by_date or by_harvest):
        acc.add("termination", f"run terminated after step {last['t']} ({last['date'].date()}): neither the "
                f"last season's harvest nor the day before the end date {E0}", dict(t=last["t"]))
    cov["end_by_date" if by_date and not by_harvest else "end_by_harvest"] += 1
    if len(tr.steps) > n_span - 1:
        acc.add("too-many-steps", f"{len(tr.steps)} steps for a window of {n_span} days", {})
    if res.finished is not True:
        acc.add("not-finished", "the run returned but the model does not report itself finished", {})
    return len(tr.steps) >= 20 and cov.get("in_season", 0) >= 1


def run_case(case):
    spec = case["spec"]
    stepping = ("random", case["stepping"]) if case.get("stepping") is not None else None
    res = sim.run(spec, opts=dict(ledger=False, irr=False), stepping=stepping)
    acc = base.Acc(spec)
    nt = monitor(spec, res, acc, complete=(res.status == "ok")) if res.trace.steps else False
    if stepping and res.status == "ok":
        acc.cov["stepped_runs"] += 1
    if res.status in ("error", "abort") and res.trace.phase == "run" and res.trace.steps:
        # a run that was stepping and then raised (or never stopped) did not terminate at the last
        # harvest or on the day before the end date
        tname, msg, site, _ = res.exc
        last = res.trace.steps[-1]
        acc.add("termination", f"after step {last['t']} ({last['date'].date()}) the run "
                f"{'did not stop (watchdog)' if res.status == 'abort' else 'raised'} {tname} in {site[0]}.{site[1]}: {msg[:100]}",
                dict(t=last["t"], exception=tname, site=list(site)), dict(exception=tname, crop_has_no_YldWC=acc.spec_feats.get("crop_has_no_YldWC")),
                site=f"{site[0]}.{site[1]}")
    out = base.finish(spec, res, acc, nt, instruments=("step",),
                      sample_extra={"stepping": getattr(res.trace, "parts", None) and res.trace.parts[:8],
                                    "window_class": case.get("cls")})
    out["key"] = out["key"] + ("/s%d" % case["stepping"] if stepping else "")
    out["cls"] = case.get("cls") if res.status == "ok" else None
    return out


def finalize(cases_, results, tier):
    cls = set(r.get("cls") for r in results if r.get("cls"))
    if results:
        results[0].setdefault("cov", {})["window_classes"] = len(cls)
    return {"window_classes_completed": len(cls)}
