"""C18 Soil profile and initial water content are built as specified - initialisation monitor
with an independent reference for the layer assignment and the initial water content."""
import numpy as np

from .. import common, gen, instrument as I, sim, spec as S
from . import base

ID = "C18"
TECHNIQUE = "runtime monitoring: structural invariants of the live soil profile checked right after the real _initialize(), plus an independent reference model of the initial water content"
ANCHORS = ["entities/soil.py", "initialize/read_model_parameters.py", "initialize/read_model_initial_conditions.py",
           "initialize/create_soil_profile.py", "initialize/compute_variables.py"]
RULE = ("all 15 built-in soils and custom soils (1-3 layers from hydraulic values or texture, layer "
        "boundaries on compartment boundaries), compartment thickness lists (uniform 0.05-0.3, increasing, "
        "uneven), every crop rooting depth (deepening), initial water content Prop/Pct/Num x Layer/Depth "
        "with depth points >= 1 cm away from layer boundaries; no water table; only _initialize() is run; "
        "non-trivial = initialisation completed; distinct = spec digest")
ASSUMPTIONS = [
    "expected hydraulic values of a texture layer are those returned by the model's own pedotransfer call",
    "a compartment belongs to the first layer whose cumulative thickness reaches the compartment's original bottom (layer boundaries lie on compartment boundaries)",
    "initial content by depth: linear interpolation of the points (flat beyond both ends) at mid-depths computed from the final thicknesses",
]
FLOORS = {
    "quick": {"initialisations": 600, "deepened": 150, "iwc_Prop_Layer": 60, "iwc_Pct_Layer": 60, "iwc_Num_Layer": 40,
              "iwc_Prop_Depth": 40, "iwc_Pct_Depth": 40, "iwc_Num_Depth": 25, "texture_layers": 80,
              "multi_layer": 200, "compartments_checked": 8000},
    "thorough": {"initialisations": 6000, "deepened": 1500, "iwc_Prop_Layer": 600, "iwc_Pct_Layer": 600,
                 "iwc_Num_Layer": 400, "iwc_Prop_Depth": 400, "iwc_Pct_Depth": 400, "iwc_Num_Depth": 250,
                 "texture_layers": 800, "multi_layer": 2000, "compartments_checked": 80000},
}
BUILTIN = {
    "Clay": [(0.39, 0.54, 0.55, 35)], "ClayLoam": [(0.23, 0.39, 0.5, 125)], "Default": [(0.1, 0.3, 0.5, 500)],
    "Loam": [(0.15, 0.31, 0.46, 500)], "LoamySand": [(0.08, 0.16, 0.38, 2200)], "Sand": [(0.06, 0.13, 0.36, 3000)],
    "SandyClay": [(0.27, 0.39, 0.5, 35)], "SandyClayLoam": [(0.20, 0.32, 0.47, 225)],
    "SandyLoam": [(0.10, 0.22, 0.41, 1200)], "Silt": [(0.09, 0.33, 0.43, 500)],
    "SiltClayLoam": [(0.23, 0.44, 0.52, 150)], "SiltLoam": [(0.13, 0.33, 0.46, 575)],
    "SiltClay": [(0.32, 0.50, 0.54, 100)], "Paddy": [(0.32, 0.50, 0.54, 15), (0.39, 0.54, 0.55, 2)],
    "ac_TunisLocal": [(0.24, 0.40, 0.50, 155), (0.11, 0.33, 0.46, 500)],
}
BUILTIN_THICK = {"Paddy": [0.5, 1.5], "ac_TunisLocal": [0.3, 1.7]}
EXTRA_DZ = [[0.3] * 4, [0.2] * 6, [0.25] * 6, [0.15] * 8, [0.3] * 8, [0.05] * 30, [0.1] * 5 + [0.3] * 5]


def cases(tier, seed):
    n = base.n_cases(800, 8000, tier)
    crops = common.crop_names()
    out = []
    for i in range(n):
        rng = gen.rng_for(seed, ID, i)
        crop = crops[i % len(crops)]
        zmax = float(common.crop_catalogue()[crop]["Zmax"])
        s = gen.soil_spec(rng, zmax, p_custom=0.55, p_dz=0.6, pen=gen.chance(rng, 0.3), p_opts=0.1)
        if gen.chance(rng, 0.15) and s["type"] != "ac_TunisLocal" and s["type"] != "Paddy":
            dz = [round(x, 2) for x in gen.pick(rng, EXTRA_DZ)]
            if s["type"] == "custom":
                # rebuild the layers for the new grid (boundaries on compartment boundaries)
                s = gen.soil_spec(rng, 0.0, p_custom=1.0, pen=False, p_opts=0.0)
                bounds = np.round(np.cumsum(dz), 2).tolist()
                nl = len(s["layers"])
                cut = sorted(set(float(gen.pick(rng, bounds[:-1])) for _ in range(nl - 1))) if len(bounds) > 1 else []
                tops, bots = [0.0] + cut, cut + [bounds[-1]]
                s["layers"] = s["layers"][: len(tops)]
                for L, a, b in zip(s["layers"], tops, bots):
                    L["thickness"] = round(b - a, 2)
            s["kw"]["dz"] = dz
        iw = gen.iwc_depth_spec(rng, s, bottom=True) if i % 2 else gen.iwc_spec(rng, s)
        gw = None
        if i % 6 == 3:
            # a water table changes a field-capacity *request* only: every other request - a
            # percentage or a number that happens to equal field capacity included - stands
            hyd = gen.layer_hyd(s)
            nl = gen.soil_layers(s)
            if i % 12 == 3 or any(h is None for h in hyd):
                iw = {"wc_type": "Pct", "method": "Layer", "depth_layer": list(range(1, nl + 1)),
                      "value": [float(gen.pick(rng, [100, 100, 50, 0])) for _ in range(nl)]}
            else:
                iw = {"wc_type": "Num", "method": "Layer", "depth_layer": list(range(1, nl + 1)),
                      "value": [float(h[1]) if gen.chance(rng, 0.7) else round(h[0] * float(gen.pick(rng, [0.6, 0.8])), 3) for h in hyd]}
            gw = {"method": "Constant", "dates": ["2001/05/01"], "values": [float(gen.pick(rng, [0.6, 1.0, 1.5, 2.2]))]}
        elif i % 6 == 5 and iw["wc_type"] == "Num" and iw["method"] == "Layer":
            # numbers between air-dry and wilting point are valid requests too
            hyd = gen.layer_hyd(s)
            if not any(h is None for h in hyd):
                iw["value"] = [round(hyd[int(L) - 1][0] * float(gen.pick(rng, [0.55, 0.7, 0.9])), 3) if gen.chance(rng, 0.5) else v
                               for L, v in zip(iw["depth_layer"], iw["value"])]
        sp = {"start": "2001/05/01", "end": "2002/12/31", "off_season": False,
              "weather": {"kind": "synth", "seed": 11, "regime": "warm"},
              "soil": s, "crop": {"name": crop, "planting": "05/01", "harvest": "10/30", "kw": {}},
              "iwc": iw, "irr": {"method": 0, "kw": {}, "schedule": None}}
        if gw:
            sp["gw"] = gw
        c = {"spec": sp}
        if i % 10 == 1:
            # the user's Soil object has been used before, by a model of a shallow-rooted crop
            c["pre_use"] = gen.pick(rng, ["Tomato", "Potato", "DryBean", "Quinoa"])
        if i % 40 == 13 and s["type"] == "custom":
            c["corner_texture"] = True
            # the corner of the texture triangle where the pedotransfer function stops working
            for L in s["layers"][:1]:
                for k in ("thWP", "thFC", "thS", "Ksat"):
                    L.pop(k, None)
                L.update(sand=float(rng.integers(38, 44)), clay=float(rng.integers(56, 61)), om=float(gen.pick(rng, [5.0, 6.0, 7.0, 8.0])))
        if i % 10 == 7:
            # net irrigation refills the root zone on the planting day (= first day of the run)
            sp["irr"] = {"method": 4, "kw": {"NetIrrSMT": float(gen.pick(rng, [70, 80, 95]))}, "schedule": None}
            nl = gen.soil_layers(s)
            if iw["wc_type"] != "Num":
                sp["iwc"] = {"wc_type": "Pct", "method": "Layer", "depth_layer": list(range(1, nl + 1)),
                             "value": [float(gen.pick(rng, [10, 25, 40])) for _ in range(nl)]}
            c["step_after"] = True
        out.append(c)
    return out


def expected_layers(spec):
    """(original dz, per-layer expected (wp, fc, s, Ksat, pen), thickness list)."""
    common.use_repo()
    s = spec["soil"]
    if s["type"] == "custom":
        dz = s["kw"].get("dz", [0.1] * 12)
        lay, thick = [], []
        from aquacrop import Soil

        for L in s["layers"]:
            if "sand" in L:
                wp, fc, ts, ks = Soil("custom").calculate_soil_hydraulic_properties(L["sand"] / 100, L["clay"] / 100, L["om"])
            else:
                wp, fc, ts, ks = L["thWP"], L["thFC"], L["thS"], L["Ksat"]
            lay.append((wp, fc, ts, ks, L.get("pen", 100)))
            thick.append(L["thickness"])
        return list(dz), lay, thick
    dz = s["kw"].get("dz", [0.1] * 12)
    if s["type"] == "ac_TunisLocal":
        dz = [0.1] * 6 + [0.15] * 5 + [0.2]
    lay = [h + (100,) for h in BUILTIN[s["type"]]]
    thick = BUILTIN_THICK.get(s["type"], [round(sum(dz), 2)])
    return list(dz), lay, thick


def layer_of_compartments(dz, thick):
    bots = np.round(np.cumsum(dz), 2)
    cum = np.round(np.cumsum(thick), 2)
    out = []
    last = 1
    for b in bots:
        j = next((k + 1 for k, c in enumerate(cum) if b <= c + 1e-9), None)
        if j is None:
            j = last            # below all layers: inherits the last assigned layer
        last = j
        out.append(j)
    return out


def run_case(case):
    spec = case["spec"]
    acc = base.Acc(spec)
    cov = acc.cov
    common.use_repo()
    I.install()
    I.watchdog_setup()
    res = sim.RunResult()
    tr = I.Trace()
    res.trace = tr
    model = None
    try:
        kw = S.build(spec)
        res.kw = kw
        if case.get("pre_use"):
            from aquacrop import AquaCropModel, Crop
            first = dict(kw, crop=Crop(case["pre_use"], planting_date="05/01"))
            with np.errstate(all="ignore"):
                AquaCropModel(**first)._initialize()
            acc.cov["soil_objects_used_before"] += 1
        model = S.make_model(spec, kw)
        I.watchdog_arm(400_000)
        with np.errstate(all="ignore"):
            model._initialize()
        I.watchdog_disarm()
    except I.HarnessAbort as ex:
        res.status, res.exc = "abort", sim.exc_info(ex)
    except I.HarnessTimeout:
        raise
    except Exception as ex:  # noqa: BLE001
        res.exc = sim.exc_info(ex)
        res.status = "rejected" if sim.permitted_rejection(res.exc) else "error"
    finally:
        I.watchdog_disarm()
    corner = any("sand" in L and float(L.get("clay", 0)) >= 56 and float(L.get("om", 0)) >= 5
                 for L in spec["soil"].get("layers", []))
    if res.status == "error" and (res.exc[2][1] == "calculate_soil_hydraulic_properties" or corner):
        # the pedotransfer function refuses the texture (outside its range of validity): the model
        # never runs on such a soil, which is all C18 speaks about
        acc.cov["textures_rejected_by_pedotransfer"] += 1
        res.status = "rejected"
        return base.finish(spec, res, acc, False)
    dz0, lay, thick = expected_layers(spec)
    zmax = float(common.crop_catalogue()[spec["crop"]["name"]]["Zmax"])
    feats = {"profile_cannot_reach_max_root_depth": gen.reachable_depth(dz0) < zmax + 0.1}
    if res.status == "abort":
        acc.add("deepening-does-not-terminate", f"profile deepening exhausted its line budget: {res.exc[1][:100]}",
                dict(dz=dz0, Zmax=zmax), feats, site=f"{res.exc[2][0]}.{res.exc[2][1]}")
        out = base.finish(spec, res, acc, False)
        out["status"] = "violated"
        return out
    if res.status != "ok":
        if res.status == "error":
            acc.add("initialisation-fails", f"{res.exc[0]} @ {res.exc[2][0]}.{res.exc[2][1]}: {res.exc[1][:100]}",
                    dict(traceback=res.exc[3][-600:]), feats, site=f"{res.exc[2][0]}.{res.exc[2][1]}")
            out = base.finish(spec, res, acc, False)
            out["status"] = "violated"
            return out
        return base.finish(spec, res, acc, False)
    cov["initialisations"] += 1
    prof = model._param_struct.Soil.Profile
    n = len(prof.dz)
    cov["compartments_checked"] += n
    dz = np.asarray(prof.dz, float)
    dzsum = np.asarray(prof.dzsum, float)
    deepened = abs(float(dz.sum()) - round(sum(dz0), 2)) > 1e-9
    feats["profile_deepened"] = bool(deepened)
    if deepened:
        cov["deepened"] += 1
    # ---- well-formedness ---------------------------------------------------------------------
    if n != len(dz0):
        acc.add("compartment-count", f"{n} compartments, the soil was specified with {len(dz0)}", {}, feats)
    if np.any(dz <= 0) or np.any(np.abs(dzsum - np.cumsum(dz)) > 1e-9):
        acc.add("depth-sum", f"compartment bottoms {dzsum.tolist()} are not the running sum of the thicknesses "
                f"{dz.tolist()}", {}, feats)
    stale = []
    if np.any(np.abs(np.asarray(prof.zBot) - dzsum) > 1e-9):
        stale.append("zBot")
    if np.any(np.abs(np.asarray(prof.z_top) - (dzsum - dz)) > 1e-9):
        stale.append("z_top")
    if np.any(np.abs(np.asarray(prof.zMid) - (dzsum - dz / 2)) > 1e-9):
        stale.append("zMid")
    if stale:
        i = int(np.argmax(np.abs(np.asarray(prof.zMid) - (dzsum - dz / 2))))
        acc.add("geometry-inconsistent", f"{stale} disagree with the compartment bottoms/thicknesses, e.g. compartment "
                f"{i}: zMid={float(prof.zMid[i])!r}, bottom {dzsum[i]!r}, thickness {dz[i]!r}",
                dict(fields=stale, comp=i), feats)
    layer = np.asarray(prof.Layer).astype(int)
    want_layer = layer_of_compartments(dz0, thick)
    ok_layers = layer[0] == 1 and np.all(np.diff(layer) >= 0) and np.all(np.diff(layer) <= 1)
    if not ok_layers:
        acc.add("layers-not-contiguous", f"layer numbers {layer.tolist()} do not start at 1 / are not contiguous", {}, feats)
    if len(want_layer) == n and layer.tolist() != want_layer:
        acc.add("layer-assignment", f"compartments were assigned to layers {layer.tolist()}, the specification "
                f"(thicknesses {thick} on compartments {dz0}) gives {want_layer}", dict(got=layer.tolist(), want=want_layer), feats)
    if len(lay) > 1:
        cov["multi_layer"] += 1
    if any("sand" in L for L in spec["soil"].get("layers", [])):
        cov["texture_layers"] += 1
    thd, twp, tfc, ths = (np.asarray(getattr(prof, k), float) for k in ("th_dry", "th_wp", "th_fc", "th_s"))
    if not (np.all(thd < twp) and np.all(twp < tfc) and np.all(tfc <= ths)):
        i = int(np.argmax(~((thd < twp) & (twp < tfc) & (tfc <= ths))))
        acc.add("hydraulic-order", f"compartment {i}: air-dry {thd[i]!r} < WP {twp[i]!r} < FC {tfc[i]!r} <= SAT {ths[i]!r} "
                "does not hold", dict(comp=i), dict(feats, texture=any("sand" in L for L in spec["soil"].get("layers", []))))
    tau = np.asarray(prof.tau, float)
    if np.any(tau < 0) or np.any(tau > 1) or np.any(~np.isfinite(tau)):
        acc.add("tau-range", f"drainage coefficient outside [0,1]: {tau.tolist()}", {}, feats)
    ref_layer = want_layer if len(want_layer) == n else layer.tolist()
    for i in range(n):
        j = ref_layer[i] - 1
        if not (0 <= j < len(lay)):
            continue
        wp, fc, ts, ks, pen = lay[j]
        got = (twp[i], tfc[i], ths[i], float(prof.Ksat[i]), float(prof.Penetrability[i]), thd[i])
        want = (wp, fc, ts, ks, pen, wp / 2)
        if any(abs(a - b) > 1e-12 * max(1.0, abs(b)) for a, b in zip(got, want)):
            acc.add("layer-properties", f"compartment {i} (layer {j + 1}) has (WP,FC,SAT,Ksat,pen,dry)={got}, its layer was "
                    f"specified with {want}", dict(comp=i, layer=j + 1, got=list(map(float, got)), want=list(map(float, want))), feats)
            break
    if not dzsum[-1] >= zmax - 1e-9:
        acc.add("profile-too-shallow", f"the profile ends at {dzsum[-1]} m, the crop's maximum rooting depth is {zmax} m",
                dict(depth=float(dzsum[-1]), Zmax=zmax), feats)
    # ---- initial water content ----------------------------------------------------------------
    iw = spec["iwc"]
    cov[f"iwc_{iw['wc_type']}_{iw['method']}"] += 1
    th = np.array(model._init_cond.th, dtype=float)      # a copy: the model goes on writing into its own array
    refdz = np.round(np.cumsum(dz), 2)

    def value_for(layer_j, v):
        wp, fc, ts = lay[layer_j][0], lay[layer_j][1], lay[layer_j][2]
        if iw["wc_type"] == "Prop":
            return {"WP": wp, "FC": fc, "SAT": ts}[v]
        if iw["wc_type"] == "Pct":
            return wp + (float(v) / 100.0) * (fc - wp)
        return float(v)

    want = None
    if iw["method"] == "Layer":
        want = np.zeros(n)
        for L, v in zip(iw["depth_layer"], iw["value"]):
            for i in range(n):
                if ref_layer[i] == int(L):
                    want[i] = value_for(int(L) - 1, v)
    else:
        pts, vals = [], []
        for z, v in zip(iw["depth_layer"], iw["value"]):
            idx = next((i for i in range(n) if z < refdz[i]), n - 1)
            vals.append(value_for(ref_layer[idx] - 1, v))
            pts.append(float(z))
        mids = refdz - dz / 2
        want = np.interp(mids, pts, vals)
    if want is not None and spec.get("gw") and len(th) == n:
        # documented: compartments below a water table start saturated.  C18 does not say which
        # notion of "below" applies (C19 does, for the daily state), so either the requested value
        # or saturation is accepted for a compartment whose centre lies at or below the table
        zg = float(spec["gw"]["values"][0])
        mids_ = refdz - dz / 2
        below = mids_ >= zg - 1e-9      # a centre at the table depth (a tie decided by rounding) may go either way
        sat = np.array([lay[ref_layer[i] - 1][2] if 0 <= ref_layer[i] - 1 < len(lay) else want[i] for i in range(n)])
        want = np.where(below & (np.abs(th - sat) <= 1e-12), sat, want)
        cov["iwc_with_water_table"] += 1
        cov["iwc_compartments_above_table"] += int((~below).sum())
    if want is not None and (len(th) != n or np.any(np.abs(th - want) > 1e-12)):
        i = int(np.argmax(np.abs(th - want))) if len(th) == n else 0
        acc.add("initial-water-content", f"compartment {i}: initial water content {th[i] if len(th) == n else None!r}, the "
                f"specification ({iw['wc_type']}/{iw['method']} {iw['depth_layer']} -> {iw['value']}) gives {want[i]!r}",
                dict(comp=i, got=float(th[i]) if len(th) == n else None, want=float(want[i]), iwc=iw), feats)
    if case.get("step_after") and len(th) == n:
        # the profile the model keeps as "the configured initial content" (season resets go back to
        # it) must still be the requested one after the first days have been simulated
        try:
            I.watchdog_arm(2_000_000)
            with np.errstate(all="ignore"):
                model.run_model(num_steps=3, initialize_model=False)
            I.watchdog_disarm()
            kept = np.asarray(model._init_cond.thini, float)
            cov["stored_initial_content_checks"] += 1
            if len(kept) != n or np.any(np.abs(kept - th) > 1e-12):
                i = int(np.argmax(np.abs(kept - th))) if len(kept) == n else 0
                acc.add("stored-initial-content", f"after three simulated days the stored initial water content of compartment {i} "
                        f"is {kept[i] if len(kept) == n else None!r}; it was initialised to {th[i]!r}",
                        dict(comp=i, after=float(kept[i]) if len(kept) == n else None, at_init=float(th[i])), feats)
        except I.HarnessTimeout:
            raise
        except Exception:  # noqa: BLE001 - failures while stepping are C16's business
            cov["stored_initial_content_step_failed"] += 1
        finally:
            I.watchdog_disarm()
    res.status = "ok"
    out = base.finish(spec, res, acc, True, sample_extra={"compartments": n, "deepened": bool(deepened),
                                                          "dz": dz.tolist()[:6], "layers": len(lay)})
    return out
