"""C16 Every valid configuration runs to completion with finite outputs - sweep monitor over
the catalogue crop x soil x strategy x options, with logical-time watchdogs and an FP trap."""
import datetime as dt

import numpy as np

from .. import common, gen, instrument as I, sim, spec as S
from . import base
from .base import FX

ID = "C16"
TECHNIQUE = "runtime monitoring: catalogue sweep of real runs under watchdogs (step bound, sys.monitoring line budget) with a finiteness oracle on every reported number and a whitelist of documented rejections"
ANCHORS = ["core.py", "initialize/read_model_parameters.py", "initialize/compute_crop_calendar.py",
           "initialize/read_groundwater_table.py", "initialize/read_model_initial_conditions.py",
           "timestep/run_single_timestep.py", "timestep/reset_initial_conditions.py",
           "solution/transpiration.py", "solution/infiltration.py", "solution/check_groundwater_table.py"]
RULE = ("crop (37) x built-in soil (15) x strategy (6): thorough runs the full product (3330, exhaustive "
        "for that product), quick a covering set that hits every crop x strategy pair and every soil; "
        "options drawn per run: every documented flag value (ETadj, PlantMethod, CropType, GDDmethod "
        "1-3, Determinant, Pol*Stress, TrColdStress), compartment thickness lists, field-management "
        "and groundwater options (constant / variable, incl. a first observation after the start), "
        "initial-water-content type x method, CO2 option, planting dates over the year, 29 Feb as start "
        "or end, windows with no / partial / several seasons, bundled and synthetic weather; "
        "non-trivial = run completed with >= 20 executed days; distinct = spec digest")
ASSUMPTIONS = [
    "permitted rejections: ValueError (date format, weather coverage, > 580 years) from core/read_weather_inputs/read_clocks_parameters; AssertionError 'not enough growing degree days' / 'longer than 1 year to mature' from compute_crop_calendar/reset_initial_conditions",
    "the z_gw column is required to be finite only when a water table is configured",
    "non-termination is decided on logical time: step bound and a 400 000 line-event budget on the initialisation loops",
]
FLOORS = {
    "quick": {"completed": 200, "crops_completed_3x": 33, "soils_completed_3x": 15, "strategies_completed_3x": 6,
              "cells_checked": 1000000, "leap_day_windows": 10, "edge_windows": 10},
    "thorough": {"completed": 2500, "crops_completed_3x": 37, "soils_completed_3x": 15,
                 "strategies_completed_3x": 6, "cells_checked": 15000000, "leap_day_windows": 100,
                 "edge_windows": 100},
}
MAX_INCONCLUSIVE = 0.05


def one(rng, crop, soil, method, i):
    cat = common.crop_catalogue()
    zmax = float(cat[crop]["Zmax"])
    thermal = cat[crop]["CalendarType"] == 2
    c = gen.crop_spec(rng, name=crop, flags=True, harvest_early=gen.chance(rng, 0.1))
    if gen.chance(rng, 0.15):
        c["kw"]["CropType"] = int(gen.pick(rng, [1, 2, 3])) if cat[crop]["CropType"] != 3 else cat[crop]["CropType"]
    if not thermal and gen.chance(rng, 0.04):
        c["kw"]["SwitchGDD"] = 1        # documented switch: convert the calendar-day crop to thermal time
        c["harvest"] = None
    w = gen.weather_spec(rng, crop, hostile=gen.chance(rng, 0.3), p_file=0.35)
    if not thermal and not c["kw"].get("SwitchGDD") and (gen.chance(rng, 0.04) or (i % 6 == 0 and float(cat[crop].get("dHI_pre", 0) or 0) > 0)):
        # a place where the crop cannot grow at all: the run still has to finish with finite numbers
        w = {"kind": "synth", "seed": int(rng.integers(0, 2 ** 31 - 1)), "regime": "polar"}
    if not thermal and i % 25 == 7 and crop in ("Wheat", "Barley", "Potato", "SugarBeet", "Quinoa", "Tef", "DryBean", "Default"):
        # a bundled file exactly as prepare_weather() returns it, with a winter inside the season
        # (the Brussels record has days without any evaporative demand)
        w = {"kind": "file", "name": "brussels_climate.txt"}
        c["planting"] = f"{int(rng.integers(10, 12)):02d}/{int(rng.integers(1, 29)):02d}"
        c["harvest"] = None
    span = gen.W.file_span(w["name"]) if w["kind"] == "file" else None
    shape = gen.pick(rng, ["after", "after", "mid", "anniv", "long", "feb29"])
    start, end, p0 = gen.window(rng, c, seasons=(1, 3), pre=(0, 0, 5, 40, 200), end_shape=shape, file_span=span)
    edge = None
    brussels_winter = w.get("name") == "brussels_climate.txt" and not thermal and i % 25 == 7
    if brussels_winter:
        # Decembers of 1997-2002 contain the days without evaporative demand
        y = int(rng.integers(1997, 2002))
        pm, pd_ = [int(x) for x in c["planting"].split("/")]
        p0 = dt.date(y, pm, pd_)
        start = p0 - dt.timedelta(days=int(gen.pick(rng, [0, 10])))
        end = p0 + dt.timedelta(days=gen.crop_len_days(crop) + 60 + 365 * int(rng.integers(0, 2)))
    r = rng.random() if not brussels_winter else 0.99
    if r < 0.05 and span is None:
        # leap day as the start date
        y = start.year
        while not (y % 4 == 0 and (y % 100 != 0 or y % 400 == 0)):
            y -= 1
        start = dt.date(y, 2, 29)
        end = max(end, start + dt.timedelta(days=400))
        edge = "start_feb29"
    elif r < 0.09:
        # window that starts after the planting date and ends before the next one: no season
        start = p0 + dt.timedelta(days=int(rng.integers(1, 40)))
        end = start + dt.timedelta(days=int(rng.integers(20, 280)))
        if span is not None and end > span[1]:
            end = span[1]
        edge = "no_planting_date"
    elif r < 0.12:
        end = p0 + dt.timedelta(days=int(rng.integers(3, 60)))   # partial season, may end in planting year
        edge = "partial"
    elif 0.17 <= r < 0.21 and span is None and not thermal:
        # the window ends exactly on (or next to) the planting month/day of a leap year
        ly = p0.year + int(rng.integers(1, 4))
        while not (ly % 4 == 0 and (ly % 100 != 0 or ly % 400 == 0)):
            ly += 1
        pm, pd_ = [int(x) for x in c["planting"].split("/")]
        end = dt.date(ly, pm, pd_) + dt.timedelta(days=int(gen.pick(rng, [0, 0, 0, -1, 1])))
        edge = "end_on_planting_day_leap"
    elif r < 0.17 and span is None and not thermal and not c["kw"].get("SwitchGDD"):
        # default latest harvest date (planting + days to maturity + 30) that falls on/around
        # 29 February of a leap year
        ly = int(gen.pick(rng, [1988, 1992, 1996, 2000, 2004, 2008, 2012]))
        tgt = dt.date(ly, 2, 29) + dt.timedelta(days=int(gen.pick(rng, [-1, 0, 0, 1])))
        pl = tgt - dt.timedelta(days=gen.crop_len_days(crop) + 30)
        if not (pl.month == 2 and pl.day == 29):
            c["planting"] = f"{pl.month:02d}/{pl.day:02d}"
            c["harvest"] = None
            start = pl - dt.timedelta(days=int(gen.pick(rng, [0, 0, 3, 30])))
            end = tgt + dt.timedelta(days=int(rng.integers(20, 500)))
            edge = "default_harvest_near_feb29"
    if shape == "feb29" and edge is None:
        edge = "end_feb29"
    s = {"type": soil, "kw": {}}
    if soil != "ac_TunisLocal" and gen.chance(rng, 0.25):
        s["kw"]["dz"] = [round(x, 2) for x in gen.pick(rng, gen.DZ_CHOICES + [[0.3] * 4, [0.2] * 6, [0.25] * 6, [0.15] * 8])]
        if soil == "Paddy" and sum(s["kw"]["dz"]) <= 0.6:
            s["kw"].pop("dz")
    for k, vals in (("adj_cn", [0, 1]), ("adj_rew", [0, 1]), ("calc_cn", [0, 1]), ("z_cn", [0.1, 0.15, 0.3, 0.45]),
                    ("z_germ", [0.1, 0.2, 0.3, 0.35]), ("evap_z_max", [0.2, 0.3, 0.5])):
        if gen.chance(rng, 0.15):
            s["kw"][k] = gen.pick(rng, vals)
    iw = gen.iwc_depth_spec(rng, s, bottom=True) if gen.chance(rng, 0.3) else gen.iwc_spec(rng, s)
    sp = {"start": gen.fmt(start), "end": gen.fmt(end), "off_season": gen.chance(rng, 0.4), "weather": w,
          "soil": s, "crop": c, "iwc": iw,
          "irr": gen.irr_spec(rng, start, end, methods=(method,), planting=[int(x) for x in c["planting"].split("/")])}
    if gen.chance(rng, 0.6):
        sp["fm"] = gen.fm_spec(rng, cn=77)
    if gen.chance(rng, 0.3):
        sp["ffm"] = gen.fm_spec(rng, cn=77)
    if gen.chance(rng, 0.05):
        # bunds switched on with the default (zero) or a negligible height: "z_bund >= 0" is valid
        sp.setdefault("fm", {}).update(bunds=True, z_bund=float(gen.pick(rng, [0.0, 0.0005])))
    if gen.chance(rng, 0.3):
        sp["gw"] = gen.gw_spec(rng, start, end, depths=(0.3, 0.8, 1.5, 2.5, 6.0, 30.0))
        if sp["gw"]["method"] == "Variable" and len(sp["gw"]["dates"]) > 1 and gen.chance(rng, 0.15):
            sp["gw"]["dates"] = sp["gw"]["dates"][1:]      # first observation after the start date
            sp["gw"]["values"] = sp["gw"]["values"][1:]
    co = gen.co2_spec(rng, start.year, end.year)
    if co:
        sp["co2"] = co
    return sp, edge


def cases(tier, seed):
    crops = common.crop_names()
    soils = common.SOILS
    out = []
    if tier == "thorough":
        triples = [(c, s, m) for c in crops for s in soils for m in range(6)]
        extra = int(1200 * base.scale())
    else:
        triples = []
        k = 0
        for m in range(6):
            for ci, c in enumerate(crops):      # every crop x strategy pair
                triples.append((c, soils[(ci + m * 7 + k) % len(soils)], m))
        extra = 78
    rng0 = gen.rng_for(seed, ID, 10 ** 6)
    for _ in range(extra):
        triples.append((gen.pick(rng0, crops), gen.pick(rng0, soils), int(rng0.integers(0, 6))))
    if base.scale() < 1:
        triples = triples[:: max(1, int(1 / base.scale()))]
    for i, (c, s, m) in enumerate(triples):
        rng = gen.rng_for(seed, ID, i)
        sp, edge = one(rng, c, s, m, i)
        out.append({"spec": sp, "edge": edge})
    # a window just under the documented limit of 580 years: only initialised (what is at stake is
    # the rejection at initialisation; stepping 210 000 days would take minutes)
    for j in range(2 if tier == "quick" else 6):
        rng = gen.rng_for(seed, ID, 3 * 10 ** 6 + j)
        y0 = int(gen.pick(rng, [1680, 1700, 1710]))
        start = dt.date(y0, int(rng.integers(1, 7)), 1)
        end = dt.date(y0 + 579, 12, int(rng.integers(20, 31))) if j % 2 == 0 else dt.date(y0 + 580, 1, int(rng.integers(2, 15)))
        sp = {"start": gen.fmt(start), "end": gen.fmt(end), "off_season": False,
              "weather": {"kind": "synth", "seed": int(rng.integers(0, 2 ** 31 - 1)), "regime": "temperate"},
              "soil": {"type": "Loam", "kw": {}}, "crop": {"name": "Wheat", "planting": "10/15", "harvest": None, "kw": {}},
              "iwc": {"wc_type": "Prop", "method": "Layer", "depth_layer": [1], "value": ["FC"]},
              "irr": {"method": 0, "kw": {}, "schedule": None}, "co2": {"constant": 380.0}}
        out.append({"spec": sp, "edge": "almost_580_years", "init_only": True})
    # rain-fed crops in dry climates, re-wetted on their harvest day (two passes, see run_case)
    nrw = base.n_cases(24, 240, tier)
    dry_crops = ["CottonGDD", "SoybeanGDD", "MaizeGDD", "SunflowerGDD", "SorghumGDD", "WheatGDD", "Cotton", "Maize", "Soybean", "TomatoGDD"]
    for j in range(nrw):
        rng = gen.rng_for(seed, ID, 2 * 10 ** 6 + j)
        sp = gen.config(rng, crops=[dry_crops[j % len(dry_crops)]], methods=(0,), seasons=(2, 3), p_gw=0.0, p_bunds=0.0,
                        regimes=["arid", "warm", "hot"], p_file=0.3, iwc_kinds=("FC", "Pct"), p_custom=0.0,
                        soil_names=["SandyLoam", "Loam", "Sand", "LoamySand", "SiltLoam"], end_shape="after")
        out.append({"spec": sp, "edge": None, "rewater": True})
    return out


def features(spec, res):
    S0, E0 = S.d(spec["start"]), S.d(spec["end"])
    m, d_ = [int(x) for x in spec["crop"]["planting"].split("/")]
    p = dt.date(S0.year, m, d_)
    if p < S0:
        p = dt.date(S0.year + 1, m, d_)
    gw = spec.get("gw")
    dz = spec["soil"].get("kw", {}).get("dz")
    zmax = float(common.crop_catalogue()[spec["crop"]["name"]]["Zmax"])
    return {
        "calendar_switched_to_thermal_time": int(spec["crop"].get("kw", {}).get("SwitchGDD", 0)) == 1,
        "no_planting_date_in_window": p >= E0,
        "window_ends_in_first_planting_year": p.year == E0.year,
        "variable_table_first_obs_after_start": bool(gw and gw.get("method") == "Variable" and len(gw["dates"]) > 1
                                                     and S.d(sorted(gw["dates"])[0]) > S0),
        "profile_cannot_reach_max_root_depth": bool(dz and gen.reachable_depth(dz) < zmax + 0.1),
    }


def ref_gdd(method, tupp, tbase, tmax, tmin):
    """Independent daily growing degree days (the three documented methods), vectorised."""
    tmax, tmin = np.asarray(tmax, float), np.asarray(tmin, float)
    if method == 1:
        return np.clip((tmax + tmin) / 2, tbase, tupp) - tbase
    if method == 2:
        return (np.clip(tmax, tbase, tupp) + np.clip(tmin, tbase, tupp)) / 2 - tbase
    return np.maximum((np.clip(tmax, tbase, tupp) + np.minimum(tmin, tupp)) / 2, tbase) - tbase


def rejection_justified(spec, res):
    """Is a documented growing-degree-day rejection backed by the weather?  True/False, or None
    when this reference cannot tell (non-thermal crop, calendar switch)."""
    cat = dict(common.crop_catalogue()[spec["crop"]["name"]])
    cat.update(spec["crop"].get("kw", {}))
    if int(cat.get("CalendarType", 1)) != 2 or int(cat.get("SwitchGDD", 0)) == 1:
        return None
    w = res.kw["weather_df"]
    S0, E0 = S.d(spec["start"]), S.d(spec["end"])
    dates = [x.date() for x in w["Date"]]
    g = ref_gdd(int(cat.get("GDDmethod", 3)), float(cat["Tupp"]), float(cat["Tbase"]), w["MaxTemp"].to_numpy(), w["MinTemp"].to_numpy())
    idx = {d_: i for i, d_ in enumerate(dates)}
    m, d_ = [int(x) for x in spec["crop"]["planting"].split("/")]
    p = dt.date(S0.year, m, d_)
    if p < S0:
        p = dt.date(S0.year + 1, m, d_)
    mat = float(cat["Maturity"])
    any_season = False
    while p < E0:
        any_season = True
        a, b = idx.get(p), idx.get(E0)
        if a is None or b is None:
            return None
        cum = np.cumsum(g[a:b + 1])
        if not cum[-1] > mat * (1 + 1e-9):
            return True                      # a season really lacks degree days
        if int(np.argmax(cum > mat)) + 1 >= 364:
            return True                      # ... or really needs a year or more
        p = dt.date(p.year + 1, m, d_)
    return False if any_season else None


def run_case(case):
    spec = case["spec"]
    acc = base.Acc(spec)
    cov = acc.cov
    if case.get("init_only"):
        # initialise only: a valid window must not be rejected
        common.use_repo()
        I.install()
        I.watchdog_setup()
        res = sim.RunResult()
        res.trace = I.Trace()
        try:
            res.kw = S.build(spec)
            m = S.make_model(spec, res.kw)
            I.watchdog_arm(50_000_000)
            with np.errstate(all="ignore"):
                m._initialize()
            cov["long_windows_initialised"] += 1
        except I.HarnessTimeout:
            raise
        except Exception as ex:  # noqa: BLE001
            res.exc = sim.exc_info(ex)
            res.status = "error"
            res.trace.phase = "init"
            tname, msg, site, tb = res.exc
            acc.add("undocumented-exception", f"{tname} @ {site[0]}.{site[1]}:{site[2]}: {msg[:120]} (window {spec['start']}..{spec['end']}, "
                    "less than 580 years)", dict(exception=tname, message=msg[:300], site=list(site)),
                    dict(features(spec, res), exception=tname, phase="init"), site=f"{site[0]}.{site[1]}")
        finally:
            I.watchdog_disarm()
        out = base.finish(spec, res, acc, res.status == "ok", instruments=())
        if acc.v:
            out["status"] = "violated"
        out["triple"] = None
        return out
    res = sim.run(spec, opts=dict(ledger=False, irr=False))
    if case.get("rewater") and res.status == "ok" and res.summary is not None and len(res.summary):
        # second pass: the same rain-fed run, with a heavy irrigation on (and just before) every
        # harvest day of the first pass - a crop that arrives at the end of its season in
        # drought-induced senescence is re-wetted on its very last day
        import copy
        import datetime as dt

        S0 = S.d(spec["start"])
        days = sorted(set(int(h) + o for h in res.summary["Harvest Date (Step)"].tolist() for o in (0,)))
        spec = copy.deepcopy(spec)
        spec["irr"] = {"method": 3, "kw": {"MaxIrr": 100.0}, "schedule": [[gen.fmt(S0 + dt.timedelta(days=d_)), 80.0] for d_ in days]}
        res = sim.run(spec, opts=dict(ledger=False, irr=False))
        cov["rewatered_on_harvest_day_runs"] += 1
        cov["executions"] += 1
    feats = features(spec, res)
    tr = res.trace
    nt = False
    if case.get("edge") in ("start_feb29", "end_feb29"):
        cov["leap_day_windows"] += 1
    elif case.get("edge"):
        cov["edge_windows"] += 1
    if res.status == "ok":
        cov["completed"] += 1
        wt = spec.get("gw") is not None
        mask = sim.executed_mask(res)
        names = ("water_flux", "water_storage", "crop_growth")
        for name, a in zip(names, res.tables):
            a = a[mask]
            if name == "water_flux" and not wt:
                a = np.delete(a, FX["z_gw"], axis=1)
                cols = [c for c in common.FLUX_COLS if c != "z_gw"]
            else:
                cols = common.FLUX_COLS if name == "water_flux" else common.GROWTH_COLS if name == "crop_growth" \
                    else ["time_step_counter", "growing_season", "dap"] + ["th%d" % i for i in range(1, a.shape[1])]
            cov["cells_checked"] += int(a.size)
            bad = np.argwhere(~np.isfinite(a))
            if len(bad):
                colnames = sorted(set(cols[int(j)] for j in bad[:, 1]))
                born = [f for f in tr.fp if f[1]][:3]
                acc.add("non-finite-output", f"{name}: {len(bad)} non-finite cells in column(s) {colnames} "
                        f"(first at executed row {int(bad[0][0])}); floating-point events: {born}",
                        dict(table=name, columns=colnames, fp_events=born),
                        dict(feats, only_fresh_yield=(colnames == ["FreshYield"])))
        sm = res.summary
        for col in common.SUMMARY_COLS[3:]:
            v = np.asarray(sm[col], dtype=float) if len(sm) else np.array([])
            cov["cells_checked"] += int(v.size)
            if v.size and not np.all(np.isfinite(v)):
                acc.add("non-finite-output", f"summary column '{col}' not finite: {v.tolist()[:4]}",
                        dict(table="final_stats", columns=[col]),
                        dict(feats, only_fresh_yield=(col == "Fresh yield (tonne/ha)")))
        if res.finished is not True:
            acc.add("not-finished", "run_model returned but the model does not report itself finished", {}, feats)
        nt = len(tr.steps) >= 20
    elif res.status == "rejected":
        # a documented rejection must also be *justified* by the inputs
        tname, msg, site, tb = res.exc
        if tname == "AssertionError":
            cov["gdd_rejections"] += 1
            try:
                just = rejection_justified(spec, res)
            except Exception as ex:  # noqa: BLE001
                just = None
                cov["gdd_rejection_reference_errors"] += 1
            if just is False:
                acc.add("unjustified-rejection", f"rejected with '{msg[:90]}' (raised in {site[0]}.{site[1]}), but every "
                        f"scheduled season has enough growing degree days to mature within a year by an independent count",
                        dict(message=msg[:200], site=list(site)), dict(feats, exception=tname), site=f"{site[0]}.{site[1]}")
            elif just:
                cov["gdd_rejections_justified"] += 1
    elif res.status in ("error", "abort"):
        tname, msg, site, tb = res.exc
        clause = "does-not-terminate" if res.status == "abort" else "undocumented-exception"
        loc = getattr(res, "exc_locals", {}) or {}
        acc.add(clause, f"{tname} @ {site[0]}.{site[1]}:{site[2]}: {msg[:120]}",
                dict(exception=tname, message=msg[:300], site=list(site), traceback=tb[-900:], phase=tr.phase, locals=loc),
                dict(feats, exception=tname, phase=tr.phase,
                     yield_formation_has_no_days=bool(site[1] == "calculate_HIGC" and loc.get("tHI", 1.0) <= 0)),
                site=f"{site[0]}.{site[1]}")
    out = base.finish(spec, res, acc, nt, instruments=())
    if res.status in ("error", "abort"):
        out["status"] = "violated"
        out["note"] = None
    out["triple"] = (spec["crop"]["name"], spec["soil"]["type"], S.irr_method(spec)) if res.status == "ok" else None
    return out


def finalize(cases_, results, tier):
    import collections

    c, s, m = collections.Counter(), collections.Counter(), collections.Counter()
    for r in results:
        t = r.get("triple")
        if t:
            c[t[0]] += 1
            s[t[1]] += 1
            m[t[2]] += 1
    if results:
        cov = results[0].setdefault("cov", {})
        cov["crops_completed_3x"] = sum(1 for v in c.values() if v >= 3)
        cov["soils_completed_3x"] = sum(1 for v in s.values() if v >= 3)
        cov["strategies_completed_3x"] = sum(1 for v in m.values() if v >= 3)
    never = sorted(set(common.crop_names()) - set(c))
    return {"exhaustive": False,
            "exhaustive_subspaces": "thorough tier: the full crop x soil x strategy product (37 x 15 x 6 = 3330), one option draw each",
            "crops_never_completed": never,
            "completed_per_strategy": {str(k): v for k, v in sorted(m.items())}}
