"""C01 Daily soil-water balance closes - executable ledger over the process trace."""
import numpy as np

from .. import gen, instrument as I, sim
from . import base
from .base import FX

ID = "C01"
ANCHORS = ["solution/infiltration.py", "solution/drainage.py", "solution/capillary_rise.py",
           "solution/soil_evaporation.py", "solution/transpiration.py",
           "solution/pre_irrigation.py", "solution/groundwater_inflow.py",
           "timestep/reset_initial_conditions.py"]
RULE = ("random valid configurations from the hostile soil-water generator (storms, droughts, "
        "bunds, low-Ksat layered soils, water tables, net irrigation, off-season); a case is "
        "non-trivial when it executed >= 30 days and reported >= 3 distinct non-zero flux kinds; "
        "distinct = distinct spec digest")
ASSUMPTIONS = [
    "storage is 1000*sum(th*dz)+pond with dz captured right after _initialize()",
    "the nine water-moving processes are called through run_single_timestep's namespace",
    "capillary-rise allowance 0.05 mm per metre of profile, as the property states",
]
FLOORS = {
    "quick": {"days": 5000, "d_runoff": 20, "d_deep_perc": 20, "d_pond": 20, "d_cr": 20,
              "d_gwin": 20, "d_preirr": 5, "d_irrnet": 20, "d_neg_infl": 3, "resets": 20,
              "ledger_entries": 40000},
    "thorough": {"days": 50000, "d_runoff": 200, "d_deep_perc": 200, "d_pond": 200, "d_cr": 200,
                 "d_gwin": 200, "d_preirr": 50, "d_irrnet": 200, "d_neg_infl": 30, "resets": 200,
                 "ledger_entries": 400000},
}
TOL = 1e-6


def cases(tier, seed):
    n = base.n_cases(300, 3000, tier)
    out = []
    for i in range(n):
        rng = gen.rng_for(seed, ID, i)
        cls = i % 6
        kw = dict(hostile=True, p_gw=0.3, p_bunds=0.35, p_custom=0.4, seasons=(1, 3))
        if cls == 1:
            kw.update(methods=(4,), dry=True, off_season=False, seasons=(2, 3), p_gw=0.1)
        elif cls == 2:
            kw.update(soil_names=["Paddy", "Clay", "SiltClay"], p_custom=0.2, wet=True,
                      p_bunds=0.7, crops=["PaddyRice", "Maize", "Wheat", "Tomato"])
        elif cls == 3:
            kw.update(p_gw=1.0, gw_depths=(0.3, 0.6, 1.0, 1.5, 2.0))
        elif cls == 4:
            kw.update(off_season=True, p_ffm=0.8, p_bunds=0.6)
        if cls == 4 and i % 12 == 4:
            # bunds on the fallow field only: water ponded on the eve of planting is handed over
            # to a season without bunds
            kw.update(off_season=True, soil_names=["Clay", "SiltClay", "Paddy", "SandyClay"], p_custom=0.0, p_gw=0.0,
                      regimes=["humid", "monsoon"], p_file=0.0, pre=(30, 90), seasons=(2, 3))
        if cls == 1 and i % 12 == 1:
            # pre-irrigation on a grid whose first compartment differs from those below it
            kw.update(p_custom=0.0, soil_names=["SandyLoam", "Loam", "ClayLoam", "SiltLoam"], iwc_kinds=("WP", "Pct"),
                      crops=["Maize", "Wheat", "Tomato", "Cotton", "Potato", "Sunflower"], pre=(0,))
        sp = gen.config(rng, **kw)
        if cls == 1 and i % 12 == 1:
            sp["soil"] = {"type": sp["soil"]["type"], "kw": {"dz": gen.pick(rng, [[0.05, 0.05, 0.1, 0.1, 0.2, 0.2, 0.25, 0.25],
                                                                                     [0.2, 0.1, 0.1, 0.1, 0.1, 0.1, 0.25, 0.25],
                                                                                     [0.05] * 4 + [0.15] * 6])}}
            sp["irr"]["kw"]["NetIrrSMT"] = float(gen.pick(rng, [70, 80, 90]))
        if cls == 4 and i % 12 == 4:
            sp["fm"] = dict(sp.get("fm") or {}, bunds=False)
            sp["ffm"] = {"bunds": True, "z_bund": float(gen.pick(rng, [0.1, 0.2, 0.3])), "bund_water": float(gen.pick(rng, [0.0, 50.0]))}
        out.append({"spec": sp})
    return out


def monitor(spec, res, acc):
    tr = res.trace
    p = tr.init
    cov = acc.cov
    method = base.S.irr_method(spec)
    profile_m = float(np.sum(tr.dz0))
    tol_cr = TOL + 0.05 * profile_m
    resets = {}
    for r in tr.resets:
        resets.setdefault(r["t"], r)
    ufm = spec.get("fm") or {}        # the user's in-season field management (bund height in m)
    fm = dict(bunds=bool(ufm.get("bunds", False)), z_bund=float(ufm.get("z_bund", 0.0)) * 1000.0,
              bund_water=float(ufm.get("bund_water", 0.0)))
    pond_reset = min(float(fm["bund_water"]), float(fm["z_bund"])) \
        if (fm["bunds"] and float(fm["z_bund"]) > 0.001) else 0.0
    prev = None
    thini0 = None
    for s in tr.steps:
        t = s["t"]
        f = s["flux"]
        cov["days"] += 1
        # ---- clause 1: every process closes on its own ------------------------------
        sumd = 0.0
        seen = set()
        for e in s["ledger"]:
            cov["ledger_entries"] += 1
            seen.add(e["p"])
            sumd += e["dS"]
            tol = tol_cr if e["p"] == "capillary_rise" else TOL
            if abs(e["dS"] - e["flux"]) > tol:
                acc.add("process-balance",
                        f"step {t}: {e['p']} changed storage by {e['dS']!r} mm but reported {e['flux']!r}",
                        dict(t=t, process=e["p"], dS=e["dS"], flux=e["flux"]),
                        dict(process=e["p"]))
        if len(seen) == len(I.LEDGER_PROCESSES):
            cov["full_ledgers"] += 1
        # ---- clause 2: the reported row closes the day -------------------------------
        s0 = tr.stor(s["th0"], s["pond0"])
        s1 = tr.stor(s["th1"], s["pond1"])
        net = f[FX["IrrDay"]] if method == 4 else 0.0
        rhs = (f[FX["Infl"]] + net + f[FX["CR"]] + f[FX["GwIn"]] - f[FX["DeepPerc"]]
               - f[FX["Es"]] - f[FX["Tr"]])
        tol = tol_cr if f[FX["CR"]] > 0 else TOL
        if not abs((s1 - s0) - rhs) <= tol:
            acc.add("day-balance",
                    f"step {t}: storage changed by {s1 - s0!r} mm, reported fluxes sum to {rhs!r}",
                    dict(t=t, dS=s1 - s0, rhs=rhs, row=f.tolist()))
        if len(seen) == len(I.LEDGER_PROCESSES) and abs((s1 - s0) - sumd) > 1e-7:
            acc.add("unledgered-change",
                    f"step {t}: storage changed by {s1 - s0!r} but the nine processes account for {sumd!r}",
                    dict(t=t, dS=s1 - s0, processes=sumd))
        if abs(f[FX["surface_storage"]] - s["pond1"]) > 1e-12:
            acc.add("pond-column", f"step {t}: surface_storage column {f[FX['surface_storage']]!r} "
                    f"!= ponding {s['pond1']!r}", dict(t=t))
        if not np.array_equal(s["stor_row"][3:], s["th1"]):
            acc.add("storage-table", f"step {t}: water_storage row differs from the state", dict(t=t))
        # ---- clause 3: carry-over between consecutive executed steps -----------------
        if prev is not None:
            r = resets.get(t)
            if r is None:
                same = np.array_equal(prev["th1"], s["th0"]) and prev["pond1"] == s["pond0"]
                if not same:
                    acc.add("carry-over",
                            f"storage changed between step {prev['t']} and step {t} without a season reset",
                            dict(t=t, d=float(np.max(np.abs(prev['th1'] - s['th0']))),
                                 pond=(prev["pond1"], s["pond0"])))
            else:
                cov["resets"] += 1
                if bool(spec.get("off_season")):      # as the user configured it, not the model's copy of the flag
                    if not (np.array_equal(prev["th1"], s["th0"]) and prev["pond1"] == s["pond0"]):
                        acc.add("reset-offseason",
                                f"season reset at step {t} changed stored water although the off-season is simulated",
                                dict(t=t))
                else:
                    if not np.array_equal(s["th0"], p["th_init"]):
                        i = int(np.argmax(np.abs(s["th0"] - p["th_init"])))
                        acc.add("reset-initial-content",
                                f"season {s['sc']} starts at step {t} with th[{i}]={s['th0'][i]!r}, "
                                f"configured initial content is {p['th_init'][i]!r}",
                                dict(t=t, comp=i, got=float(s["th0"][i]), want=float(p["th_init"][i])),
                                dict(net_irrigation=(method == 4)))
                    if abs(s["pond0"] - pond_reset) > 1e-12:
                        acc.add("reset-pond", f"season reset at step {t}: pond {s['pond0']!r}, "
                                f"expected {pond_reset!r}", dict(t=t))
        # ---- clause 4: stored initial content constant ------------------------------
        if thini0 is None:
            thini0 = s["thini_dig"]
            if s["thini_dig"] != I.dig(np.asarray(p["thini"], dtype=float)):
                thini0 = I.dig(np.asarray(p["thini"], dtype=float))
        if s["thini_dig"] != thini0:
            acc.add("initial-content-mutated",
                    f"stored initial water content changed before step {t}",
                    dict(t=t), dict(net_irrigation=(method == 4)))
            thini0 = s["thini_dig"]
        # ---- regime counters ---------------------------------------------------------
        if f[FX["Runoff"]] > 0:
            cov["d_runoff"] += 1
        if f[FX["DeepPerc"]] > 0:
            cov["d_deep_perc"] += 1
        if s["pond1"] > 0:
            cov["d_pond"] += 1
        if f[FX["CR"]] > 0:
            cov["d_cr"] += 1
        if f[FX["GwIn"]] > 0:
            cov["d_gwin"] += 1
        if s.get("PreIrr", 0) > 0:
            cov["d_preirr"] += 1
        if s.get("IrrNet", 0) > 0:
            cov["d_irrnet"] += 1
        if f[FX["Infl"]] < -1e-9:
            cov["d_neg_infl"] += 1
        prev = s
    kinds = sum(1 for k in ("d_runoff", "d_deep_perc", "d_pond", "d_cr", "d_gwin", "d_irrnet")
                if cov.get(k, 0) > 0) + 2 * (len(tr.steps) > 0)
    return len(tr.steps) >= 30 and kinds >= 3


def run_case(case):
    spec = case["spec"]
    res = sim.run(spec, opts=dict(ledger=True, irr=False))
    acc = base.Acc(spec)
    nt = monitor(spec, res, acc) if res.trace.steps else False
    return base.finish(spec, res, acc, nt, instruments=("step", "infiltration", "transpiration"),
                       sample_extra={"days": len(res.trace.steps),
                                     "resets": len(res.trace.resets)})
