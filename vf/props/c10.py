"""C10 Runs are deterministic and model instances are isolated - differential over fresh
interpreters (several hash seeds), in-process sequences and worker assignment, plus a digest of
process-global objects between models."""
import copy
import json
import os
import subprocess
import sys

import numpy as np

from .. import common, fresh, gen, sim, spec as S
from . import base

ID = "C10"
TECHNIQUE = "runtime monitoring: output digests of real runs compared across fresh interpreters (PYTHONHASHSEED varied), in-process histories and pool workers; digests of process-global objects between models"
ANCHORS = ["core.py", "entities/crop.py", "entities/soil.py", "entities/crops/crop_params.py",
           "initialize/compute_variables.py", "initialize/read_model_parameters.py"]
RULE = ("a pool of random valid configurations; each is run (a) alone in fresh interpreters with "
        "PYTHONHASHSEED 0, 1, 4242 and a random one, (b) in fresh interpreters after other "
        "configurations, (c) inside pool workers as the last element of the sequences [B], [A,B], "
        "[A built but not run, B], [B,A,B], [A1..A5,B]; all SHA-256 digests of the three daily tables "
        "and the summary of one configuration must agree; non-trivial = configuration that completed "
        "in >= 2 different settings; distinct = spec digest")
ASSUMPTIONS = [
    "bit-identity is judged on one machine (IEEE-754 determinism of numpy/pandas)",
    "process-global objects digested: crop_params, default arguments of the entity constructors and compute_variables, class attributes of AquaCropModel/ModelConstants/entity classes",
]
FLOORS = {
    "quick": {"pool_water_table": 1, "pool_water_table_coarse_soil": 1, "pool_water_table_many_observations": 1, "pool_thermal_crop": 1, "pool_switch_gdd": 1, "pool_schedule": 1, "sibling_sensitivity": 1, "interleaved_sequences": 1, "fresh_interpreters": 120, "in_process_sequences": 150, "configs_compared": 30,
              "global_digests": 600, "digests_compared": 300},
    "thorough": {"pool_water_table": 1, "pool_water_table_coarse_soil": 1, "pool_water_table_many_observations": 1, "pool_thermal_crop": 1, "pool_switch_gdd": 1, "pool_schedule": 1, "sibling_sensitivity": 1, "interleaved_sequences": 1, "fresh_interpreters": 1000, "in_process_sequences": 1500, "configs_compared": 250,
                 "global_digests": 6000, "digests_compared": 3000},
}
CASE_TIMEOUT = {"quick": 400, "thorough": 1200}


def pool(tier, seed):
    n = base.n_cases(40, 300, tier)
    specs = []
    for i in range(n):
        rng = gen.rng_for(seed, ID, i)
        kw = dict(seasons=(1, 2), p_gw=0.25, p_custom=0.3, flags=(i % 3 == 0), harvest_early=0.1, pre=(0, 0, 10))
        if i % 4 == 1:
            # state that leaks between instances shows under stress: water-logged root zones
            kw.update(p_gw=1.0, gw_depths=(0.5, 0.8, 1.0, 1.3), wet=True, p_custom=0.0,
                      soil_names=["Clay", "Sand", "SandyLoam", "Paddy", "LoamySand", "ClayLoam", "SandyLoam", "Loam"])
        if i % 4 == 3:
            kw.update(methods=(3,))
        sp = gen.config(rng, **kw)
        if i % 10 == 6:
            # calendar-day tuber crop converted to thermal time over the whole window (SwitchGDD=1)
            sp["crop"]["name"] = gen.pick(rng, ["Potato", "SugarBeet"])
            sp["crop"]["kw"] = dict(sp["crop"].get("kw", {}), SwitchGDD=1)
            sp["crop"]["harvest"] = None
            if sp["weather"]["kind"] == "synth":
                sp["weather"]["regime"] = gen.pick(rng, ["warm", "temperate", "humid"])
            # the conversion needs every season of the window to reach maturity (defect D24: a
            # truncated last season raises IndexError in prepare_gdd): end shortly after a harvest
            import datetime as dt

            m, d_ = [int(x) for x in sp["crop"]["planting"].split("/")]
            s0 = S.d(sp["start"])
            p0 = dt.date(s0.year, m, d_)
            if p0 < s0:
                p0 = dt.date(s0.year + 1, m, d_)
            # (every second of these members spans six to eight seasons: the conversion averages
            # over the seasons of the window, in whatever order it holds them)
            ns = int(rng.integers(1, 3)) if (i // 10) % 2 else int(rng.integers(6, 9))
            endd = gen.add_years(p0, ns - 1) + dt.timedelta(days=gen.crop_len_days(sp["crop"]["name"]) + 40)
            if sp["weather"]["kind"] == "file":
                sp["weather"] = {"kind": "synth", "seed": int(rng.integers(0, 2 ** 31 - 1)), "regime": "warm"}
            sp["end"] = gen.fmt(endd)
            if sp.get("gw"):
                sp["gw"] = {"method": "Constant", "dates": [sp["start"]], "values": [sp["gw"]["values"][0]]}
            if sp["irr"]["method"] == 3:
                sp["irr"] = {"method": 0, "kw": {}, "schedule": None}
        if i % 10 == 2:
            y0_, y1_ = S.d(sp["start"]).year, S.d(sp["end"]).year
            sp["co2"] = {"series": [[y, round(380.0 + 2.5 * (y - y0_), 2)] for y in range(y0_ - 1, y1_ + 2)]}
        if i % 8 == 5:
            # a step-wise table with many distinct observations (given as strings, repeated entries
            # included): anything that depends on the order in which they are held shows
            import datetime as dt

            s0, e0 = S.d(sp["start"]), S.d(sp["end"])
            span = max(40, min((e0 - s0).days - 1, 300))
            offs = sorted(set(int(x) for x in rng.integers(1, span, 7)))
            vals = [float(gen.pick(rng, [0.4, 0.6, 0.9, 1.2, 1.5])) + 0.01 * j for j in range(len(offs) + 1)]
            dates = [sp["start"]] + [gen.fmt(s0 + dt.timedelta(days=o)) for o in offs]
            sp["gw"] = {"method": gen.pick(rng, ["Constant", "Constant", "Variable"]),
                        "dates": dates + [dates[2]], "values": vals + [vals[2]]}
        specs.append(sp)
    return specs


def sibling(sp, rng, kind):
    """A configuration that shares everything with ``sp`` except one factor - the history that a
    cache keyed on too little (dates, crop name, soil type ...) would confuse with ``sp``."""
    import copy

    a = copy.deepcopy(sp)
    if kind == "weather":
        if a["weather"]["kind"] == "synth":
            a["weather"]["seed"] = int(rng.integers(0, 2 ** 31 - 1))
            a["weather"]["regime"] = gen.pick(rng, gen.WARM)
        else:
            a["weather"]["temp_add"] = float(gen.pick(rng, [-3.0, 4.0]))
            a["weather"]["rain_mult"] = 0.5
    elif kind == "soil":
        a["soil"] = {"type": gen.pick(rng, [x for x in common.SOILS if x not in ("Paddy", "ac_TunisLocal", a["soil"]["type"])]), "kw": {}}
        a["iwc"] = {"wc_type": "Prop", "method": "Layer", "depth_layer": [1], "value": [gen.pick(rng, ["FC", "WP", "SAT"])]}
    elif kind == "irr":
        if S.irr_method(a) == 3:
            # a denser schedule on the same window (a buffer keyed by the window length would leak it)
            import datetime as dt

            s0, n = S.d(a["start"]), (S.d(a["end"]) - S.d(a["start"])).days
            a["irr"] = {"method": 3, "kw": {}, "schedule": [[gen.fmt(s0 + dt.timedelta(days=int(k))), 30.0]
                                                            for k in range(3, n, 9)]}
        else:
            a["irr"] = {"method": int(gen.pick(rng, [0, 1, 2, 4, 5])), "kw": {"SMT": [55.0] * 4, "IrrInterval": 4, "depth": 6.0,
                                                                             "NetIrrSMT": 60.0}, "schedule": None}
    elif kind == "crop_kw":
        hi0 = float(common.crop_catalogue()[a["crop"]["name"]]["HI0"])
        pop = float(common.crop_catalogue()[a["crop"]["name"]]["PlantPop"])
        a["crop"]["kw"] = dict(a["crop"].get("kw", {}), PlantMethod=int(rng.integers(0, 2)), ETadj=int(rng.integers(0, 2)),
                               HI0=round(hi0 * float(gen.pick(rng, [0.96, 0.98, 0.99, 1.01, 1.02])), 4),
                               PlantPop=round(pop * float(gen.pick(rng, [0.4, 0.7, 1.0, 1.5]))))
    elif kind == "crop_param":
        # the same crop with one tabulated parameter overridden (a sensitivity loop)
        cat = common.crop_catalogue()[a["crop"]["name"]]
        name = gen.pick(rng, ["CCx", "CCx", "WP", "Zmax", "Kcb", "HI0"])
        val = float(cat[name]) * float(gen.pick(rng, [0.8, 0.9, 0.95]))
        a["crop"]["kw"] = dict(a["crop"].get("kw", {}), **{name: round(val, 4)})
    elif kind == "planting":
        # same window, the crop planted three to six weeks later
        import datetime as dt

        m, d_ = [int(x) for x in a["crop"]["planting"].split("/")]
        p2 = dt.date(2001, m, d_) + dt.timedelta(days=int(gen.pick(rng, [21, 30, 45])))
        if not (p2.month == 2 and p2.day == 29):
            a["crop"]["planting"] = f"{p2.month:02d}/{p2.day:02d}"
        a["crop"]["harvest"] = None
    elif kind == "subsoil":
        # identical surface compartment, different soil underneath
        hyd = gen.layer_hyd(a["soil"])
        if a["soil"]["type"] != "custom" and len(hyd) == 1:
            ks = {"Clay": 35, "ClayLoam": 125, "Default": 500, "Loam": 500, "LoamySand": 2200, "Sand": 3000, "SandyClay": 35,
                  "SandyClayLoam": 225, "SandyLoam": 1200, "Silt": 500, "SiltClayLoam": 150, "SiltLoam": 575, "SiltClay": 100}[a["soil"]["type"]]
            wp, fc, ts = hyd[0]
            other = gen.pick(rng, [h for h in gen.HYD_LIBRARY if abs(h[1] - fc) > 0.05])
            a["soil"] = {"type": "custom", "kw": {"dz": [0.1] * 12, "cn": 61.0},
                         "layers": [{"thickness": 0.1, "thWP": wp, "thFC": fc, "thS": ts, "Ksat": float(ks), "pen": 100.0},
                                    {"thickness": 2.0, "thWP": other[0], "thFC": other[1], "thS": other[2], "Ksat": other[3], "pen": 100.0}]}
            a["iwc"] = {"wc_type": "Prop", "method": "Layer", "depth_layer": [1, 2], "value": ["FC", "FC"]}
    elif kind == "grid":
        # the same soil on another compartment grid (same number of compartments in the top soil)
        if a["soil"]["type"] not in ("custom", "ac_TunisLocal", "Paddy"):
            a["soil"] = {"type": a["soil"]["type"], "kw": dict(a["soil"].get("kw", {}),
                         dz=gen.pick(rng, [[0.05, 0.1, 0.15, 0.2, 0.2, 0.25, 0.25], [0.1, 0.1, 0.1] + [0.3] * 4,
                                           [0.15] * 8, [0.05] * 4 + [0.2] * 6]))}
    elif kind == "co2":
        if (a.get("co2") or {}).get("series"):
            # another scenario on the same years
            a["co2"] = {"series": [[y, round(v + 150.0 + 3.0 * k, 2)] for k, (y, v) in enumerate(a["co2"]["series"])]}
        else:
            a["co2"] = {"constant": float(gen.pick(rng, [300.0, 600.0, 900.0]))}
    elif kind == "iwc":
        nl = S.n_layers(a)
        a["iwc"] = {"wc_type": "Pct", "method": "Layer", "depth_layer": list(range(1, nl + 1)),
                    "value": [float(gen.pick(rng, [5, 45, 95]))] * nl}
    elif kind == "gw":
        a["gw"] = None if a.get("gw") else {"method": "Constant", "dates": [a["start"]], "values": [float(gen.pick(rng, [0.8, 1.6]))]}
    elif kind == "fm":
        a["fm"] = {"mulches": True, "mulch_pct": 70.0, "f_mulch": 0.6, "bunds": True, "z_bund": 0.12, "bund_water": 30.0}
    return a


SENS_PARAMS = ["CCx", "WP", "Zmax", "Kcb", "HI0", "PlantPop", "SeedSize", "CGC", "CDC", "Tbase", "fshape_r", "a_HI", "WPy", "Emergence", "EmergenceCD"]
SIBLING_KINDS = ["weather", "soil", "irr", "crop_kw", "co2", "iwc", "gw", "fm", "planting", "subsoil", "crop_param", "grid", "crop_param"]


def cases(tier, seed):
    specs = pool(tier, seed)
    n = len(specs)
    rng = gen.rng_for(seed, ID, 10 ** 6)
    out = []
    for i, sp in enumerate(specs):
        out.append({"kind": "fresh", "b": i, "plan": [{"spec": sp}],
                    "hashseeds": ["0", "1", "4242", str(int(rng.integers(5, 2 ** 31)))]})
    nseq = base.n_cases(200, 2000, tier)
    for j in range(nseq):
        b = j % n
        shape = j % 5
        others = [int(x) for x in rng.integers(0, n, 5)]
        if shape == 0:
            plan = [(b, True)]
        elif shape == 1:
            plan = [(others[0], True), (b, True)]
        elif shape == 2:
            plan = [(others[0], False), (b, True)]
        elif shape == 3:
            plan = [(b, True), (others[0], True), (b, True)]
        else:
            plan = [(o, True) for o in others] + [(b, True)]
        out.append({"kind": "seq", "b": b, "plan": [{"spec": specs[k], "run": r, "idx": k} for k, r in plan]})
    # near-identical predecessors: same dates and crop, one factor changed
    nsib = base.n_cases(120, 1500, tier)
    for j in range(nsib):
        kind = SIBLING_KINDS[j % len(SIBLING_KINDS)]
        b = (j * 7 + j // len(SIBLING_KINDS)) % n
        if j % 5 == 0:
            # make sure the members that only few siblings can disturb are visited
            special = [k for k, sp_ in enumerate(specs) if sp_["crop"].get("kw", {}).get("SwitchGDD") == 1]
            if special:
                b, kind = special[(j // 5) % len(special)], "planting"
        if j % 5 == 2:
            # members with a user CO2 series after another scenario on the same years
            ser = [k for k, sp_ in enumerate(specs) if (sp_.get("co2") or {}).get("series")]
            if ser:
                b, kind = ser[(j // 5) % len(ser)], "co2"
        if j % 5 == 1:
            # thermal-time members after the same window and crop under other weather
            cat_ = common.crop_catalogue()
            thermal = [k for k, sp_ in enumerate(specs) if cat_[sp_["crop"]["name"]]["CalendarType"] == 2]
            if thermal:
                b, kind = thermal[(j // 5) % len(thermal)], "weather"
        a = sibling(specs[b], rng, kind)
        plan = [{"spec": a, "run": True, "idx": -1}, {"spec": specs[b], "run": True, "idx": b}]
        if j % 3 == 2:
            plan.insert(1, {"spec": sibling(specs[b], rng, SIBLING_KINDS[int(rng.integers(0, len(SIBLING_KINDS)))]),
                            "run": True, "idx": -1})
        out.append({"kind": "seq", "b": b, "plan": plan, "sibling": kind})
    # sensitivity loops: the same configuration with ONE tabulated crop parameter changed a little /
    # a lot runs first - whatever is remembered per crop under a key that omits that parameter shows
    cat = common.crop_catalogue()
    groups = {}
    for k, sp_ in enumerate(specs):
        c = cat[sp_["crop"]["name"]]
        if sp_["crop"].get("kw", {}).get("SwitchGDD"):
            continue
        groups.setdefault((int(c["CalendarType"]), int(c["CropType"]) == 3), []).append(k)
    members = [v[j % len(v)] for _, v in sorted(groups.items()) for j in range(1 if tier == "quick" else 4)]
    for b in members:
        c = cat[specs[b]["crop"]["name"]]
        for name in SENS_PARAMS:
            if name not in c or not isinstance(c[name], (int, float)) or float(c[name]) <= 0:
                continue
            for f in (0.99, 0.96, 0.7):
                a = copy.deepcopy(specs[b])
                v = float(c[name]) * f
                a["crop"]["kw"] = dict(a["crop"].get("kw", {}), **{name: (round(v) if name in ("PlantPop",) else round(v, 5))})
                # in an interpreter of its own: in a long-lived worker an earlier case may already
                # have filled whatever is remembered with the member's own values
                out.append({"kind": "fresh", "b": b, "sibling": "sensitivity", "sens": name, "hashseeds": ["0"],
                            "plan": [{"spec": a, "run": True, "idx": -1}, {"spec": specs[b], "run": True, "idx": b}]})
    # interleaved: the member is stepped for a while, another model runs to its end, the member continues
    nint = base.n_cases(40, 400, tier)
    for j in range(nint):
        b = (j * 3 + 1) % n
        o = int(rng.integers(0, n))
        other = specs[o] if j % 2 else sibling(specs[b], rng, SIBLING_KINDS[j % len(SIBLING_KINDS)])
        out.append({"kind": "seq", "b": b, "interleaved": True,
                    "plan": [{"spec": specs[b], "idx": b, "pause": {"steps": int(rng.integers(1, 400)), "spec": other}}]})
    nfs = base.n_cases(12, 100, tier)
    for j in range(nfs):
        b = (j * 7) % n
        others = [int(x) for x in rng.integers(0, n, 2)]
        out.append({"kind": "fresh", "b": b, "hashseeds": [str(int(rng.integers(5, 2 ** 31)))],
                    "plan": [{"spec": specs[o], "idx": o} for o in others] + [{"spec": specs[b], "idx": b}]})
    return out


def check_globals(globs, acc, where):
    g0 = globs[0]
    for i, g in enumerate(globs[1:], 1):
        acc.cov["global_digests"] += len(g)
        for k, v in g.items():
            if g0.get(k) != v:
                acc.add("global-state-changed", f"process-global object '{k}' changed after model #{i} of {where}",
                        dict(object=k, after_model=i), dict(object=k))
                g0 = g


def run_case(case):
    plan = case["plan"]
    bspec = plan[-1]["spec"]
    acc = base.Acc(bspec)
    cov = acc.cov
    digs = []     # (spec key, digest, setting)
    notes = []
    if case["kind"] == "fresh":
        for hs in case["hashseeds"]:
            env = dict(os.environ, PYTHONHASHSEED=hs)
            try:
                p = subprocess.run([sys.executable, "-m", "vf.fresh"], input=json.dumps({"plan": plan}),
                                   capture_output=True, text=True, timeout=300, cwd=common.VERIF_DIR, env=env)
            except subprocess.TimeoutExpired:
                notes.append("fresh interpreter timed out")
                continue
            cov["fresh_interpreters"] += 1
            if case.get("sens"):
                cov["sibling_sensitivity"] += 1
                cov["sens_" + case["sens"]] += 1
            cov["executions"] += len(plan)
            if p.returncode != 0:
                notes.append("fresh interpreter failed: " + p.stderr[-300:])
                continue
            out = json.loads(p.stdout.splitlines()[-1])
            check_globals(out["globals"], acc, f"a fresh interpreter (PYTHONHASHSEED={hs})")
            for item, dg, st in zip(plan, out["digests"], out["status"]):
                if dg is not None:
                    digs.append((S.digest(item["spec"]), dg, f"fresh/hashseed={hs}/pos={plan.index(item)}"))
                elif st.startswith(("error", "abort", "timeout")):
                    notes.append(st)
    else:
        out = fresh.run_plan(plan)
        cov["in_process_sequences"] += 1
        if case.get("interleaved"):
            cov["interleaved_sequences"] += 1
        if case.get("sibling"):
            cov["sibling_sequences"] += 1
            cov["sibling_" + case["sibling"]] += 1
            if case.get("sens"):
                cov["sens_" + case["sens"]] += 1
        cov["executions"] += sum(1 for it in plan if it.get("run", True))
        check_globals(out["globals"], acc, f"an in-process sequence in worker {os.getpid()}")
        for pos, (item, dg, st) in enumerate(zip(plan, out["digests"], out["status"])):
            if dg is not None:
                digs.append((S.digest(item["spec"]), dg, f"worker/{len(plan)}-sequence/pos={pos}" + ("/interleaved" if item.get("pause") else "")))
            elif st.startswith("error") and item.get("pause"):
                acc.add("interleaved-run-fails", f"a model that is paused while another one runs does not complete: {st}",
                        dict(status=st), dict())
    # within-case agreement
    seen = {}
    for k, dg, setting in digs:
        if k in seen and seen[k][0] != dg:
            acc.add("digest-differs", f"the same configuration produced different outputs: {seen[k][1]} vs {setting}",
                    dict(a=seen[k][1], b=setting), dict())
        seen.setdefault(k, (dg, setting))
    res = dict(violations=acc.v, cov=dict(cov), digs=digs, key=S.digest(bspec),
               nontrivial=len(digs) >= 1, sample=dict(S.summary_of(bspec), kind=case["kind"],
                                                      plan_len=len(plan), digests=len(digs)))
    res["cov"].setdefault("executions", 0)
    if notes and not digs:
        res["status"] = "inconclusive"
        res["note"] = notes[0]
    elif not digs:
        res["status"] = "rejected"
        res["cov"]["rejected"] = 1
    return res


def finalize(cases_, results, tier):
    """Cross-case agreement: every digest of one configuration, in whatever setting, is equal."""
    by = {}
    for r in results:
        for k, dg, setting in r.get("digs") or []:
            by.setdefault(k, []).append((dg, setting, r))
    ncmp = 0
    nconf = 0
    for k, lst in by.items():
        if len(lst) >= 2:
            nconf += 1
        ref = lst[0]
        for dg, setting, r in lst[1:]:
            ncmp += 1
            if dg != ref[0]:
                from .. import findings as F

                r["violations"].append(F.violation(
                    "digest-differs", f"configuration {k}: outputs differ between [{ref[1]}] and [{setting}]",
                    dict(a=ref[1], b=setting, spec_key=k), r.get("feats") or {}))
                r["status"] = "violated"
    if results:
        c = results[0].setdefault("cov", {})
        c["configs_compared"] = nconf
        c["digests_compared"] = ncmp
        # what the pool of configurations contains (a class that silently empties would blind
        # the comparison to whatever only that class can show)
        seen_specs = {}
        for cs in cases_:
            for it in cs["plan"]:
                if it.get("idx", -1) is not None and it.get("idx", -1) >= 0:
                    seen_specs[it["idx"]] = it["spec"]
        cat = common.crop_catalogue()
        for sp_ in seen_specs.values():
            hyd = [h for h in gen.layer_hyd(sp_["soil"]) if h]
            if sp_.get("gw"):
                c["pool_water_table"] = c.get("pool_water_table", 0) + 1
                if hyd and min(h[1] for h in hyd) < 0.3:
                    c["pool_water_table_coarse_soil"] = c.get("pool_water_table_coarse_soil", 0) + 1
                if len(sp_["gw"]["dates"]) > 3:
                    c["pool_water_table_many_observations"] = c.get("pool_water_table_many_observations", 0) + 1
            if cat[sp_["crop"]["name"]]["CalendarType"] == 2:
                c["pool_thermal_crop"] = c.get("pool_thermal_crop", 0) + 1
            if sp_["crop"].get("kw", {}).get("SwitchGDD"):
                c["pool_switch_gdd"] = c.get("pool_switch_gdd", 0) + 1
            if S.irr_method(sp_) == 3:
                c["pool_schedule"] = c.get("pool_schedule", 0) + 1
    for r in results:
        r.pop("digs", None)
    return {"configurations_with_two_or_more_settings": nconf}
