"""C17 Stress and growth response functions are bounded and monotone - function contracts
evaluated (1) on a dense lattice with the parameters of every built-in crop as initialised by
the model and (2) riding along in full simulations on the arguments the model really produces."""
import copy

import numpy as np

from .. import common, gen, instrument as I, sim, spec as S
from . import base

ID = "C17"
TECHNIQUE = "runtime monitoring: runtime contracts (range/monotonicity/inverse) on the real response functions, driven over an exhaustive 37-crop lattice and riding along in real simulations"
ANCHORS = ["solution/water_stress.py", "solution/temperature_stress.py", "solution/growing_degree_day.py",
           "solution/cc_development.py", "solution/cc_required_time.py", "initialize/compute_variables.py",
           "timestep/reset_initial_conditions.py"]
RULE = ("for each of the 37 built-in crops the model is initialised on the bundled Hyderabad climate "
        "(planting 1 June) and the crop object it built is used to drive: water_stress over depletion "
        "-20..120 % TAW x ET0 0.1..20 x early senescence on/off x beta on/off; temperature_stress over "
        "-30..60 C; growing_degree_day methods 1-3 over a (Tmin,Tmax) grid; cc_development growth / "
        "decline curves over time for several (CCx, CGC, CDC) scalings and cc_required_time as inverse; "
        "fCO2 from initialisations at constant 250..2500 ppm and the reference (default and user-supplied 330 / 420 ppm); plus range contracts "
        "riding along in random full simulations; non-trivial = a crop lattice / CO2 sweep / ride-along "
        "run that evaluated >= 100 contract instances; distinct = (kind, crop or spec digest)")
ASSUMPTIONS = [
    "crop parameters are those of the season crop object after _initialize() (calendar crops get CGC/CDC only there)",
    "monotonicity slack 1e-12; inverse relative 1e-6 on 1.0001*CC0 <= cc <= 0.98*CCx",
]
FLOORS = {
    "quick": {"co2_custom_reference_checks": 1, "crops_lattice": 37, "crops_co2": 37, "lattice_evaluations": 400000, "ride_along_evaluations": 40000,
              "co2_initialisations": 1500, "inverse_checks": 10000},
    "thorough": {"co2_custom_reference_checks": 1, "crops_lattice": 37, "crops_co2": 37, "lattice_evaluations": 2000000,
                 "ride_along_evaluations": 400000, "co2_initialisations": 3000, "inverse_checks": 60000},
}
CASE_TIMEOUT = {"quick": 400, "thorough": 1500}
E = 1e-12


def init_spec(crop, co2=None, ref=None):
    sp = {"start": "2000/06/01", "end": "2002/05/30", "off_season": False,
          "weather": {"kind": "file", "name": "hyderabad_climate.txt"}, "soil": {"type": "Loam", "kw": {}},
          "crop": {"name": crop, "planting": "06/01", "harvest": None, "kw": {}},
          "iwc": {"wc_type": "Prop", "method": "Layer", "depth_layer": [1], "value": ["FC"]},
          "irr": {"method": 0, "kw": {}, "schedule": None}}
    if co2 is not None:
        sp["co2"] = {"constant": float(co2)}
        if ref is not None:
            sp["co2"]["ref"] = float(ref)
    return sp


def cases(tier, seed):
    out = []
    for c in common.crop_names():
        out.append({"kind": "lattice", "crop": c, "fine": tier == "thorough"})
        out.append({"kind": "co2", "crop": c, "step": 25 if tier == "quick" else 12.5})
    n = base.n_cases(64, 640, tier)
    for i in range(n):
        rng = gen.rng_for(seed, ID, i)
        sp = gen.config(rng, seasons=(1, 2), hostile=(i % 2 == 0), p_gw=0.2, flags=(i % 3 == 0))
        if i % 4 == 1:
            # a dry start that sends the canopy into early senescence, water back late in the season
            import datetime as dt

            sp = gen.config(rng, seasons=(1, 2), dry=True, regimes=["arid", "hot", "warm"], methods=(3,), p_gw=0.0, p_file=0.0,
                            crops=["Cotton", "Maize", "Sorghum", "Sunflower", "Wheat", "CottonGDD", "MaizeGDD", "Soybean"], pre=(0,))
            p0 = gen.first_planting(sp)
            L = gen.crop_len_days(sp["crop"]["name"])
            d0 = int(L * float(gen.pick(rng, [0.6, 0.7, 0.8])))
            sp["irr"] = {"method": 3, "kw": {"MaxIrr": 60.0}, "schedule": [[gen.fmt(p0 + dt.timedelta(days=d0 + 7 * k)), 50.0] for k in range(6)]}
        out.append({"kind": "ride", "spec": sp})
    return out


def initialised_crop(crop, co2=None, ref=None):
    common.use_repo()
    sp = init_spec(crop, co2, ref)
    m = S.make_model(sp)
    I.watchdog_setup()
    I.watchdog_arm(400_000)
    try:
        m._initialize()
    finally:
        I.watchdog_disarm()
    return m._param_struct.Seasonal_Crop_List[0], m


def mono(acc, vals, xs, direction, clause, what, crop):
    """direction=-1: non-increasing, +1: non-decreasing."""
    v = np.asarray(vals, dtype=float)
    d = np.diff(v) * direction
    if np.any(d < -E):
        i = int(np.argmin(d))
        acc.add(clause, f"{crop}: {what} is not monotone: f({xs[i]!r})={v[i]!r}, f({xs[i + 1]!r})={v[i + 1]!r}",
                dict(crop=crop, x0=float(xs[i]), x1=float(xs[i + 1]), y0=float(v[i]), y1=float(v[i + 1])))
        return False
    return True


def lattice(crop, acc, fine):
    from aquacrop.solution.water_stress import water_stress
    from aquacrop.solution.temperature_stress import temperature_stress
    from aquacrop.solution.growing_degree_day import growing_degree_day
    from aquacrop.solution.cc_development import cc_development
    from aquacrop.solution.cc_required_time import cc_required_time

    cov = acc.cov
    cr, _ = initialised_crop(crop)
    # ---- water stress ---------------------------------------------------------------------
    fr = np.linspace(-0.2, 1.2, 281 if fine else 141)
    names = ["expansion", "stomatal", "senescence", "pollination", "stomatal-linear"]
    for et0 in (0.1, 1.0, 3.0, 5.0, 8.0, 12.0, 20.0):
        for tes in (0, 5):
            for beta in (False, True):
                for taw in (50.0, 137.5):
                    for etadj in ((cr.ETadj,) if not fine else (0, 1)):
                        rows = []
                        for f in fr:
                            r = water_stress(cr.p_up, cr.p_lo, etadj, cr.beta, cr.fshape_w, tes, f * taw, taw, et0, beta)
                            rows.append([float(x) for x in r])
                            cov["lattice_evaluations"] += 1
                        a = np.array(rows)
                        if np.any(~np.isfinite(a)) or a.min() < -E or a.max() > 1 + E:
                            j = int(np.argmax(np.nanmax(np.abs(a - 0.5), axis=0)))
                            acc.add("water-stress-range", f"{crop}: water-stress coefficient '{names[j]}' leaves [0,1] "
                                    f"(min {np.nanmin(a[:, j])!r}, max {np.nanmax(a[:, j])!r}) at ET0={et0}, early "
                                    f"senescence={tes}, beta={beta}", dict(crop=crop, et0=et0, coefficient=names[j]))
                        for j in range(5):
                            mono(acc, a[:, j], fr, -1, "water-stress-monotone",
                                 f"water-stress coefficient '{names[j]}' vs depletion (ET0={et0}, early senescence={tes}, "
                                 f"beta={beta})", crop)
    # ---- temperature stress -------------------------------------------------------------------
    ts = np.arange(-30, 60.01, 0.25 if fine else 0.5)
    for flags in ((cr.PolHeatStress, cr.PolColdStress), (1, 1)):
        c2 = copy.copy(cr)
        c2.PolHeatStress, c2.PolColdStress = flags
        heat = [float(temperature_stress(c2, t, 10.0)[0]) for t in ts]
        cold = [float(temperature_stress(c2, 45.0, t)[1]) for t in ts]
        cov["lattice_evaluations"] += 2 * len(ts)
        for lab, v in (("heat", heat), ("cold", cold)):
            v = np.asarray(v)
            if np.any(~np.isfinite(v)) or v.min() < -E or v.max() > 1 + E:
                acc.add("temperature-stress-range", f"{crop}: {lab} pollination coefficient leaves [0,1] "
                        f"(min {v.min()!r}, max {v.max()!r})", dict(crop=crop, which=lab))
        mono(acc, heat, ts, -1, "temperature-stress-monotone", "heat coefficient vs maximum temperature", crop)
        mono(acc, cold, ts, +1, "temperature-stress-monotone", "cold coefficient vs minimum temperature", crop)
    # ---- growing degree days ----------------------------------------------------------------------
    grid = np.arange(-30, 60.01, 1.25 if fine else 2.5)
    rng_ = float(cr.Tupp) - float(cr.Tbase)
    for method in (1, 2, 3):
        G = np.full((len(grid), len(grid)), np.nan)
        for i, tmin in enumerate(grid):
            for j, tmax in enumerate(grid):
                if tmax < tmin:
                    continue
                G[i, j] = growing_degree_day(method, cr.Tupp, cr.Tbase, float(tmax), float(tmin))
                cov["lattice_evaluations"] += 1
        ok = G[~np.isnan(G)]
        if ok.min() < -E or ok.max() > rng_ + E:
            acc.add("gdd-range", f"{crop}: degree days (method {method}) leave [0, {rng_}]: min {ok.min()!r}, max {ok.max()!r}",
                    dict(crop=crop, method=method))
        for i in range(len(grid)):
            row = G[i, i:]
            mono(acc, row, grid[i:], +1, "gdd-monotone", f"degree days (method {method}) vs Tmax at Tmin={grid[i]}", crop)
            col = G[: i + 1, i]
            mono(acc, col, grid[: i + 1], +1, "gdd-monotone", f"degree days (method {method}) vs Tmin at Tmax={grid[i]}", crop)
    # ---- canopy curves ----------------------------------------------------------------------------
    cc0, ccx, cgc, cdc = float(cr.CC0), float(cr.CCx), float(cr.CGC), float(cr.CDC)
    tspan = max(float(cr.MaxCanopy) - float(cr.Emergence), 1.0) * 1.6
    dspan = max(float(cr.Maturity) - float(cr.Senescence), 1.0) * 1.6
    npts = 400 if fine else 200
    # the last two: a maximum cover so reduced (leaf-expansion stress) that the initial cover is
    # more than half of it
    for fx in (1.0, 0.8, 0.5, cc0 / (0.6 * ccx), cc0 / (0.85 * ccx)):
        for fg in (1.0, 0.6, 0.3):
            X, G_ = ccx * fx, cgc * fg
            tt = np.linspace(0, tspan / fg, npts)
            grow = [float(cc_development(cc0, X, G_, cdc, float(t), "Growth", ccx)) for t in tt]
            cov["lattice_evaluations"] += npts
            g = np.asarray(grow)
            if g.min() < -E or g.max() > X + 1e-9:
                acc.add("canopy-range", f"{crop}: growth curve leaves [0, CCx={X}]: min {g.min()!r} max {g.max()!r}",
                        dict(crop=crop, CCx=X, CGC=G_))
            mono(acc, g, tt, +1, "canopy-growth-monotone", f"canopy growth curve (CCx={X:.3f}, CGC={G_:.5f})", crop)
            for t, c in zip(tt, g):
                if 1.0001 * cc0 <= c <= 0.98 * X and t > 0:
                    cov["inverse_checks"] += 1
                    treq = float(cc_required_time(float(c), cc0, X, G_, cdc, "CGC"))
                    if not abs(treq - t) <= 1e-6 * max(1.0, abs(t)):
                        acc.add("canopy-inverse", f"{crop}: cc_required_time(cc_development(t={t!r})) = {treq!r}",
                                dict(crop=crop, t=float(t), cc=float(c), treq=treq))
                        break
        for fd in (1.0, 0.5, 2.0):
            X, D_ = ccx * fx, cdc * fd
            tt = np.linspace(0, dspan, npts)
            dec = [float(cc_development(cc0, X, cgc, D_, float(t), "Decline", ccx)) for t in tt]
            cov["lattice_evaluations"] += npts
            d = np.asarray(dec)
            if d.min() < -E or d.max() > X + 1e-9:
                acc.add("canopy-range", f"{crop}: decline curve leaves [0, CCx={X}]: min {d.min()!r} max {d.max()!r}",
                        dict(crop=crop, CCx=X, CDC=D_))
            mono(acc, d, tt, -1, "canopy-decline-monotone", f"canopy decline curve (CCx={X:.3f}, CDC={D_:.5f})", crop)
    cov["crops_lattice"] += 1


def season_start_fco2(crop, co2, ref=None):
    """fCO2 as set by the *season reset* (the path every season after the first, and a first
    season planted after the start date, goes through): start two days before planting and step
    into the season."""
    common.use_repo()
    sp = init_spec(crop, co2, ref)
    sp["start"] = "2000/05/30"
    m = S.make_model(sp)
    I.watchdog_setup()
    I.watchdog_arm(2_000_000)
    try:
        m.run_model(num_steps=2, initialize_model=True)   # the reset runs at the end of the 2nd fallow day
    finally:
        I.watchdog_disarm()
    assert m._clock_struct.season_counter == 0
    return float(m._param_struct.Seasonal_Crop_List[0].fCO2)


def co2_sweep(crop, step, acc):
    cov = acc.cov
    ref = 369.41
    concs = sorted(set([ref] + [float(x) for x in np.arange(250, 2500.01, step)]
                       + [float(x) for x in np.arange(540, 560.01, 1.0)] + [549.98, 550.02, 369.0, 370.0]))
    out = {}
    for path, fn in (("initialisation", lambda c: float(initialised_crop(crop, co2=c)[0].fCO2)),
                     ("season reset", lambda c: season_start_fco2(crop, c))):
        vals = {}
        for c in concs:
            vals[c] = fn(c)
            cov["co2_initialisations"] += 1
            cov["executions"] += 1
        if abs(vals[ref] - 1.0) > 1e-12:
            acc.add("co2-reference", f"{crop}: CO2 productivity factor at the reference concentration is {vals[ref]!r} "
                    f"({path} path)", dict(crop=crop, path=path))
        ys = [vals[x] for x in concs]
        if not np.all(np.isfinite(ys)):
            acc.add("co2-finite", f"{crop}: CO2 productivity factor not finite ({path} path)", dict(crop=crop))
        mono(acc, ys, concs, +1, "co2-monotone", f"CO2 productivity factor vs concentration ({path} path)", crop)
        out[path] = vals
    a, b = out["initialisation"], out["season reset"]
    worst = max(concs, key=lambda c: abs(a[c] - b[c]))
    cov["co2_path_comparisons"] += len(concs)
    if abs(a[worst] - b[worst]) > 1e-12:
        acc.add("co2-paths-disagree", f"{crop}: at {worst} ppm the factor is {a[worst]!r} when set at initialisation but "
                f"{b[worst]!r} when set by the season reset", dict(crop=crop, ppm=worst))
    # a reference concentration other than the default: the factor is 1 there, not at 369.41 ppm
    for ref2 in (330.0, 420.0):
        for path, fn in (("initialisation", lambda c: float(initialised_crop(crop, co2=c, ref=ref2)[0].fCO2)),
                         ("season reset", lambda c: season_start_fco2(crop, c, ref=ref2))):
            v = {c: fn(c) for c in (ref2 - 40.0, ref2, ref2 + 60.0, 700.0)}
            cov["co2_initialisations"] += 4
            cov["co2_custom_reference_checks"] += 1
            cov["executions"] += 4
            if abs(v[ref2] - 1.0) > 1e-12:
                acc.add("co2-reference", f"{crop}: with the reference concentration set to {ref2} ppm the CO2 productivity "
                        f"factor at {ref2} ppm is {v[ref2]!r} ({path} path)", dict(crop=crop, path=path, ref=ref2))
            if not (v[ref2 - 40.0] <= v[ref2] + 1e-12 and v[ref2] <= v[ref2 + 60.0] + 1e-12 and v[ref2 + 60.0] <= v[700.0] + 1e-12):
                acc.add("co2-monotone", f"{crop}: CO2 productivity factor not non-decreasing around the reference {ref2} ppm "
                        f"({path} path): {v}", dict(crop=crop, path=path, ref=ref2))
    cov["crops_co2"] += 1
    return {"fCO2_250": a[concs[0]], "fCO2_2500": a[concs[-1]]}


def run_case(case):
    common.use_repo()
    if case["kind"] == "ride":
        spec = case["spec"]
        acc = base.Acc(spec)
        res = sim.run(spec, opts=dict(ledger=False, irr=False, contracts=True))
        n = sum(v for k, v in res.trace.n.items() if k.startswith("contract:"))
        acc.cov["ride_along_evaluations"] += n
        for k, v in res.trace.n.items():
            if k.startswith("contract:"):
                acc.cov["ride_" + k[9:]] += v
        for cv in res.trace.contract_viol:
            acc.add("ride-along-" + cv["fn"], f"{cv['fn']} called from {cv['caller']} at step {cv['t']}: {cv['msg']}",
                    dict(cv))
        return base.finish(spec, res, acc, n >= 100, instruments=("step",), sample_extra={"contract_evaluations": n})
    acc = base.Acc(None)
    crop = case["crop"]
    extra = {}
    with np.errstate(all="ignore"):
        if case["kind"] == "lattice":
            lattice(crop, acc, case.get("fine", False))
            n = acc.cov["lattice_evaluations"]
        else:
            extra = co2_sweep(crop, case["step"], acc)
            n = acc.cov["co2_initialisations"] * 5
    acc.cov.setdefault("executions", 0)
    if case["kind"] == "lattice":
        acc.cov["executions"] += 1
    return dict(violations=acc.v, cov=dict(acc.cov), nontrivial=n >= 100, key=f"{case['kind']}/{crop}",
                sample=dict(kind=case["kind"], crop=crop, evaluations=int(n), **extra))


def finalize(cases_, results, tier):
    return {"exhaustive": False,
            "exhaustive_subspaces": "all 37 built-in crops x the stated lattice (water stress, temperature stress, "
                                    "degree days, canopy curves, CO2 factor)"}
