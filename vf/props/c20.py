"""C20 Disabled features and neutral settings are inert - differential monitor."""
import copy

import numpy as np

from .. import common, gen, sim, spec as S
from . import base

ID = "C20"
TECHNIQUE = "runtime monitoring: differential oracle over real runs (base configuration vs. neutral transformations of it), output digests compared"
ANCHORS = ["timestep/run_single_timestep.py", "solution/rainfall_partition.py", "solution/soil_evaporation.py",
           "solution/irrigation.py", "solution/infiltration.py", "initialize/read_field_managment.py",
           "initialize/read_irrigation_management.py", "initialize/read_model_parameters.py"]
RULE = ("base configuration and neutral transformations of it, alone and in random combinations of "
        "2-4: mulch / bund / curve-number-percentage settings with their switch off, parameters of the "
        "non-selected irrigation strategies, AppEff/WetSurf under rainfed, mulches on with cover or "
        "factor 0, constant depth 0, empty schedule, daily or seasonal maximum 0 (vs. rainfed), the "
        "model's own default harvest date stated explicitly; non-trivial = >= 2 transformed runs "
        "compared with a base of >= 30 executed days; distinct = spec digest")
ASSUMPTIONS = [
    "digest = SHA-256 of the three daily tables and the summary (the crop-type label of the summary is the same in both runs)",
]
NAMES = ["mulch_params_off", "bund_params_off", "cn_pct_off", "other_strategy_params", "rainfed_eff_wet",
         "mulch_zero_cover", "mulch_zero_factor", "depth_zero", "empty_schedule", "maxirr_zero",
         "season_cap_zero", "explicit_harvest_date"]
FLOORS = {
    "quick": dict({"t_" + n: 12 for n in NAMES}, pairs=250, combinations=60),
    "thorough": dict({"t_" + n: 120 for n in NAMES}, pairs=2500, combinations=600),
}
CASE_TIMEOUT = {"quick": 400, "thorough": 1200}


def cases(tier, seed):
    n = base.n_cases(72, 720, tier)
    out = []
    for i in range(n):
        rng = gen.rng_for(seed, ID, i)
        kw = dict(seasons=(1, 2), p_gw=0.15, p_custom=0.2, hostile=(i % 4 == 0), p_bunds=0.2, p_mulch=0.2,
                  flags=(i % 2 == 1))
        if i % 3 == 0:
            kw.update(methods=(0,))       # rainfed bases for the 'neutral value vs off' family
        if i % 4 == 1:
            kw.update(off_season=True, p_ffm=0.5, pre=(5, 40, 90))   # fallow days: the fallow management acts
        if i % 4 == 2:
            kw.update(off_season=False, seasons=(2, 3))               # season resets act
            if i % 8 == 2:
                kw.update(crops=[c for c in gen.usable_crops() if c in common.gdd_crops()], seasons=(3, 4), p_file=0.0)
        if i % 6 == 5:
            kw.update(crops=["Potato", "SugarBeet", "PotatoGDD", "SugarBeetGDD", "Tomato", "Wheat"], flags=False)
        sp = gen.config(rng, **kw)
        if i % 6 == 5:
            # options that make the crop calendar take its less travelled branches
            sp["crop"]["kw"]["Determinant"] = 1
        if i % 12 == 3 and common.crop_catalogue()[sp["crop"]["name"]]["CalendarType"] == 1:
            sp["crop"]["kw"]["SwitchGDD"] = 1
        if common.crop_catalogue()[sp["crop"]["name"]]["CalendarType"] == 2 and sp["weather"]["kind"] == "synth" and i % 2 == 0:
            # warm and cool years: a later season may run up against the latest harvest date
            sp["weather"].setdefault("params", {})["interannual"] = float(gen.pick(rng, [3.0, 4.5, 6.0]))
        if i % 8 == 1:
            # in-season curve-number adjustment on (its fallow twin stays off)
            sp.setdefault("fm", {}).update(curve_number_adj=True, curve_number_adj_pct=float(gen.pick(rng, [-10, 10, 25])))
        sp["crop"]["harvest"] = None
        out.append({"spec": sp, "seed": int(rng.integers(0, 2 ** 31 - 1))})
    return out


# --- transformations: spec -> new spec or None when not applicable ------------------------

def fm(sp, key="fm"):
    return dict(sp.get(key) or {})


def _target(sp, rng):
    """The in-season or (when the run has fallow days to show it) the fallow management."""
    return "ffm" if rng.random() < 0.4 else "fm"


def t_mulch_params_off(sp, rng, ctx):
    key = _target(sp, rng)
    f = fm(sp, key)
    if f.get("mulches"):
        return None
    f.update(mulches=False, mulch_pct=float(gen.pick(rng, [0, 35, 100])), f_mulch=float(gen.pick(rng, [0.0, 0.3, 1.0])))
    return dict(sp, **{key: f})


def t_bund_params_off(sp, rng, ctx):
    key = _target(sp, rng)
    f = fm(sp, key)
    if f.get("bunds"):
        return None
    f.update(bunds=False, z_bund=float(gen.pick(rng, [0.05, 0.2, 0.5])), bund_water=float(gen.pick(rng, [15, 40, 300])))
    return dict(sp, **{key: f})


def t_cn_pct_off(sp, rng, ctx):
    key = _target(sp, rng)
    f = fm(sp, key)
    if f.get("curve_number_adj"):
        return None
    f.update(curve_number_adj=False, curve_number_adj_pct=float(gen.pick(rng, [-30, -10, 10, 25])))
    return dict(sp, **{key: f})


def t_other_strategy_params(sp, rng, ctx):
    irr = copy.deepcopy(sp.get("irr") or {"method": 0, "kw": {}, "schedule": None})
    m = irr["method"]
    k = irr["kw"]
    if m != 1:
        k["SMT"] = [float(x) for x in rng.choice([20, 40, 60, 80], 4)]
    if m != 2:
        k["IrrInterval"] = int(rng.integers(1, 12))
    if m != 4:
        k["NetIrrSMT"] = float(gen.pick(rng, [30, 55, 95]))
    if m != 5:
        k["depth"] = float(gen.pick(rng, [3, 12, 40]))
    return dict(sp, irr=irr)


def t_rainfed_eff_wet(sp, rng, ctx):
    if S.irr_method(sp) != 0:
        return None
    irr = copy.deepcopy(sp.get("irr") or {"method": 0, "kw": {}, "schedule": None})
    irr["kw"]["AppEff"] = float(gen.pick(rng, [40, 75, 90]))
    irr["kw"]["WetSurf"] = float(gen.pick(rng, [10, 50, 80]))
    return dict(sp, irr=irr)


def t_mulch_zero_cover(sp, rng, ctx):
    f = fm(sp)
    if f.get("mulches"):
        return None
    f.update(mulches=True, mulch_pct=0.0, f_mulch=float(gen.pick(rng, [0.3, 0.5, 1.0])))
    return dict(sp, fm=f)


def t_mulch_zero_factor(sp, rng, ctx):
    f = fm(sp)
    if f.get("mulches"):
        return None
    f.update(mulches=True, mulch_pct=float(gen.pick(rng, [30, 80, 100])), f_mulch=0.0)
    return dict(sp, fm=f)


def _rainfed_to(sp, rng, method, **kw):
    if S.irr_method(sp) != 0:
        return None
    old = (sp.get("irr") or {}).get("kw", {})
    k = {a: old[a] for a in ("AppEff", "WetSurf") if a in old}
    k.update(kw)
    irr = {"method": method, "kw": k, "schedule": [] if method == 3 else None}
    if method == 1:
        k.setdefault("SMT", [float(x) for x in rng.choice([40, 60, 80], 4)])
    if method == 2:
        k.setdefault("IrrInterval", int(rng.integers(1, 10)))
    if method == 5:
        k.setdefault("depth", float(gen.pick(rng, [5, 20])))
    if method == 3 and "MaxIrr" in kw or method == 3 and "MaxIrrSeason" in kw:
        irr["schedule"] = [[sp["start"], 20.0]]
    return dict(sp, irr=irr)


def t_depth_zero(sp, rng, ctx):
    return _rainfed_to(sp, rng, 5, depth=0.0)


def t_empty_schedule(sp, rng, ctx):
    return _rainfed_to(sp, rng, 3)


def t_maxirr_zero(sp, rng, ctx):
    return _rainfed_to(sp, rng, int(gen.pick(rng, [1, 2, 3, 5])), MaxIrr=0.0)


def t_season_cap_zero(sp, rng, ctx):
    return _rainfed_to(sp, rng, int(gen.pick(rng, [1, 2, 3, 5])), MaxIrrSeason=0.0)


def t_explicit_harvest_date(sp, rng, ctx):
    h = ctx.get("harvest_written_back")
    if not h or sp["crop"].get("harvest"):
        return None
    c = dict(sp["crop"], harvest=h)
    return dict(sp, crop=c)


T = {n: globals()["t_" + n] for n in NAMES}
# transformations that replace the irrigation block exclude each other
IRR_FAMILY = {"depth_zero", "empty_schedule", "maxirr_zero", "season_cap_zero", "other_strategy_params",
              "rainfed_eff_wet"}
MULCH_FAMILY = {"mulch_params_off", "mulch_zero_cover", "mulch_zero_factor"}


def run_case(case):
    spec = case["spec"]
    acc = base.Acc(spec)
    cov = acc.cov
    rng = np.random.default_rng(case["seed"])
    kw = S.build(spec)
    B = sim.run(spec, kw=kw, opts=dict(ledger=False, irr=False))
    if B.status != "ok":
        return base.finish(spec, B, acc, False, instruments=("step",))
    d0 = sim.tables_digest(B)
    # the latest harvest date the model computed itself: month/day of the first scheduled one
    ctx = {"harvest_written_back": None}
    hd = B.trace.init.get("harvest") or []
    if len(hd):
        m, d_ = hd[0].month, hd[0].day
        if not (int(m) == 2 and int(d_) == 29):
            ctx["harvest_written_back"] = f"{int(m):02d}/{int(d_):02d}"
    plans = []
    for name in NAMES:
        sp2 = T[name](copy.deepcopy(spec), rng, ctx)
        if sp2 is not None:
            plans.append(((name,), sp2))
    singles = [p[0][0] for p in plans]
    for _ in range(3):
        k = int(rng.integers(2, 5))
        pick = []
        for name in rng.permutation(singles):
            name = str(name)
            if name in IRR_FAMILY and any(x in IRR_FAMILY for x in pick):
                continue
            if name in MULCH_FAMILY and any(x in MULCH_FAMILY for x in pick):
                continue
            pick.append(name)
            if len(pick) == k:
                break
        if len(pick) >= 2:
            sp2 = copy.deepcopy(spec)
            for name in pick:
                sp2 = T[name](sp2, rng, ctx) or sp2
            plans.append((tuple(pick), sp2))
    ncmp = 0
    for names, sp2 in plans:
        if "empty_schedule" in names and rng.random() < 0.5:
            # same window, a real schedule: whatever it leaves behind must not fill the empty one
            import datetime as dt

            nb = copy.deepcopy(sp2)
            s0, n = S.d(nb["start"]), (S.d(nb["end"]) - S.d(nb["start"])).days
            nb["irr"]["schedule"] = [[gen.fmt(s0 + dt.timedelta(days=int(k))), 25.0] for k in range(2, n, 7)]
            sim.run(nb, opts=dict(ledger=False, irr=False))
            cov["executions"] += 1
            cov["neighbours_with_schedule"] += 1
        P = sim.run(sp2, opts=dict(ledger=False, irr=False))
        cov["executions"] += 1
        label = " + ".join(names)
        if P.status != "ok":
            st, note = base.run_status(P)
            acc.add("neutral-setting-fails", f"{label}: the transformed configuration does not run: {note}",
                    dict(transformation=list(names)), dict(transformation=label),
                    site=f"{P.exc[2][0]}.{P.exc[2][1]}")
            continue
        ncmp += 1
        cov["pairs"] += 1
        if len(names) == 1:
            cov["t_" + names[0]] += 1
        else:
            cov["combinations"] += 1
        if sim.tables_digest(P) != d0:
            where = ""
            for tname, a, b in zip(("water_flux", "water_storage", "crop_growth"), B.tables, P.tables):
                if a.shape != b.shape:
                    where = f"{tname} shape {a.shape} vs {b.shape}"
                    break
                bad = np.argwhere(~((a == b) | (np.isnan(a) & np.isnan(b))))
                if len(bad):
                    col = (common.FLUX_COLS if tname == "water_flux" else common.GROWTH_COLS if tname == "crop_growth"
                           else ["time_step_counter", "growing_season", "dap"] + ["th%d" % i for i in range(1, 99)])[int(bad[0][1])]
                    where = f"{tname}.{col} at step {int(bad[0][0])}: {a[tuple(bad[0])]!r} vs {b[tuple(bad[0])]!r}"
                    break
            acc.add("neutral-setting-changes-results", f"{label}: results differ from the base configuration ({where or 'summary'})",
                    dict(transformation=list(names), where=where, base=S.summary_of(spec)),
                    dict(transformation=label, includes_cn_pct_off=("cn_pct_off" in names)))
    return base.finish(spec, B, acc, ncmp >= 2 and len(B.trace.steps) >= 30, instruments=("step",),
                       sample_extra={"pairs": ncmp, "transformations": [" + ".join(p[0]) for p in plans][:6]})
