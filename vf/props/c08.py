"""C08 Seasons are independent when the off-season is not simulated - differential monitor:
season k of a multi-season run vs. a fresh run started on that season's planting date."""
import copy
import datetime as dt

import numpy as np
import pandas as pd

from .. import common, gen, sim, spec as S
from . import base
from .base import FX, GX

ID = "C08"
TECHNIQUE = "runtime monitoring: differential oracle over recorded outputs of related real runs (multi-season run vs. single-season partners), with a season-entry state diff as witness"
ANCHORS = ["timestep/reset_initial_conditions.py", "timestep/update_time.py",
           "solution/pre_irrigation.py", "solution/irrigation.py",
           "initialize/read_model_initial_conditions.py"]
RULE = ("multi-season runs (2-4 seasons, off-season not simulated) over every irrigation strategy "
        "(net irrigation from a dry start so that pre-irrigation acts), bunds with initial ponding, "
        "water tables, thermal crops (degree-day methods 1-3, cold nights, warm and cool years), CO2 varying by year or constant with a user-supplied reference; for every season k >= 1 a partner run with "
        "the same inputs started on that season's planting date; non-trivial = a compared season "
        "with >= 30 in-season days; distinct = (spec digest, k)")
ASSUMPTIONS = [
    "inputs whose meaning depends on the start date are given explicitly (constant water table, or one that stands at the same depth on every planting date; an explicit CO2 level instead of 'the first simulated year's'; an explicit latest harvest date for thermal crops)",
    "bit-identity is judged on one machine in one environment (IEEE-754 determinism of numpy/pandas)",
    "SwitchGDD=0; thermal crops get an explicit latest harvest date: when it is left unset the model derives ONE date from the first simulated season (days to maturity + 30), so a multi-season run and a run started at season k are then given different latest harvest dates by definition (with warm and cool years a later season is cut at 143 days in one and runs 146+ in the other) - an input definition, not a state leak",
    "synthetic weather is a pure function of (seed, date); water-table observations use the 'Constant' method so that dates before the partner's start are legal",
]
FLOORS = {
    "quick": {"season_comparisons": 80, "cmp_method_0": 8, "cmp_method_1": 8, "cmp_method_2": 8,
              "cmp_method_3": 8, "cmp_method_4": 8, "cmp_method_5": 8, "rows_compared": 8000,
              "cmp_thermal": 10, "cmp_water_table": 8, "cmp_bunds": 8},
    "thorough": {"season_comparisons": 800, "cmp_method_0": 80, "cmp_method_1": 80, "cmp_method_2": 80,
                 "cmp_method_3": 80, "cmp_method_4": 80, "cmp_method_5": 80, "rows_compared": 80000,
                 "cmp_thermal": 100, "cmp_water_table": 80, "cmp_bunds": 80},
}
CASE_TIMEOUT = {"quick": 300, "thorough": 900}


def cases(tier, seed):
    n = base.n_cases(216, 1500, tier)
    out = []
    thermal_pool = [c for c in gen.usable_crops() if c in common.gdd_crops()]
    for i in range(n):
        rng = gen.rng_for(seed, ID, i)
        m = i % 6
        kw = dict(methods=(m,), seasons=(2, 4) if tier == "thorough" else (2, 3), off_season=False,
                  p_gw=0.25, p_custom=0.25, p_bunds=0.3, p_file=0.2, crops=(thermal_pool if i % 5 == 4 else None), end_shape=gen.pick(rng, ["after", "mid", "anniv"]),
                  p_co2=0.6, pre=(0, 0, 7, 2, 25, 200, 330), harvest_early=0.25)
        if m == 4:
            kw.update(dry=True)
        if m == 1:
            kw.update(dry=(i % 4 == 1))
        if i % 9 == 5:
            # heavy soils whose field capacity lies inside the aeration band below saturation: what
            # the compartments remember of a wet spell must not survive into the next season
            kw.update(soil_names=["Clay", "SiltClay", "Clay"], p_custom=0.0, iwc_kinds=("FC", "SAT"), p_gw=0.0,
                      crops=["Wheat", "Maize", "Cotton", "Sorghum", "Sunflower", "Barley"], seasons=(2, 3))
        if i % 9 == 7:
            # transplanted crops after a season that ended in drought-induced early senescence
            kw.update(crops=["Potato", "Tomato", "PaddyRice", "SugarBeet", "Cassava" if False else "Potato"], methods=(0,), dry=True,
                      regimes=["arid", "warm"], p_file=0.0, p_gw=0.0, iwc_kinds=("Pct",), seasons=(2, 3))
        sp = gen.config(rng, **kw)
        if m == 4 and i % 2 == 0:
            # moist enough for roots to deepen, dry enough below Zmin for pre-irrigation to matter
            nl = S.n_layers(sp)
            sp["iwc"] = {"wc_type": "Pct", "method": "Layer", "depth_layer": list(range(1, nl + 1)),
                         "value": [float(gen.pick(rng, [30, 40, 55]))] * nl}
            sp["irr"]["kw"]["NetIrrSMT"] = float(gen.pick(rng, [70, 80, 90]))
        if m == 1:
            sp["irr"]["kw"]["SMT"] = [float(x) for x in rng.permutation([30, 50, 70, 90])]
            if i % 4 == 3:
                nl = S.n_layers(sp)
                sp["iwc"] = {"wc_type": "Pct", "method": "Layer", "depth_layer": list(range(1, nl + 1)),
                             "value": [float(gen.pick(rng, [35, 50, 65]))] * nl}
        if sp.get("gw") and i % 3 == 1:
            # a table that moves through the year but stands at the same depth on every planting
            # date (and the run starts on one): the configured initial content is then the same for
            # every season, while the table of the *end* of a season is not
            p0 = gen.first_planting(sp)
            sp["start"] = gen.fmt(p0)
            v0 = float(sp["gw"]["values"][0])
            v1 = round(max(0.3, v0 + float(gen.pick(rng, [-0.9, -0.5, 0.6]))), 2)
            ny = S.d(sp["end"]).year - p0.year + 2
            dates, vals = [], []
            for k in range(ny):
                a = gen.add_years(p0, k)
                dates += [gen.fmt(a), gen.fmt(a + dt.timedelta(days=int(gen.pick(rng, [120, 180, 240]))))]
                vals += [v0, v1]
            sp["gw"] = {"method": gen.pick(rng, ["Variable", "Variable", "Constant"]), "dates": dates, "values": vals}
            if sp["gw"]["method"] == "Constant":
                # step-wise: back at the planting-date depth the day before the next planting date
                dates2, vals2 = [], []
                for k in range(ny):
                    a = gen.add_years(p0, k)
                    dates2 += [gen.fmt(a), gen.fmt(a + dt.timedelta(days=150))]
                    vals2 += [v0, v1]
                sp["gw"].update(dates=dates2, values=vals2)
        elif sp.get("gw"):
            # a table that is constant in time: with a time-varying table the configured initial
            # content (FC adjusted for the table, saturation below it) legitimately depends on the
            # date a run starts
            sp["gw"] = {"method": "Constant", "dates": [sp["gw"]["dates"][0]], "values": [sp["gw"]["values"][0]]}
        if (sp.get("co2") or {}).get("constant_auto"):
            # "constant at the level of the first simulated year" means something else for a run
            # that starts in a later year: give the level explicitly (same inputs for both runs)
            sp["co2"] = {"constant": float(gen.pick(rng, [340.0, 369.41, 420.0]))}
        cat = common.crop_catalogue()[sp["crop"]["name"]]
        if cat["CalendarType"] == 2 and sp["weather"]["kind"] == "synth" and i % 3 != 2:
            # warm and cool years: the thermal calendar of a later season differs from the first one's
            sp["weather"].setdefault("params", {})["interannual"] = float(gen.pick(rng, [1.5, 2.5, 3.5]))
        if cat["CalendarType"] == 2 and i % 2 == 0:
            # the three ways of counting degree days, and nights colder than the base temperature
            sp["crop"]["kw"]["GDDmethod"] = int(gen.pick(rng, [1, 2, 2, 3]))
            if sp["weather"]["kind"] == "synth" and i % 4 == 0:
                sp["weather"]["temp_add"] = float(gen.pick(rng, [-3.0, -5.0]))
        if cat["CalendarType"] == 2 and i % 2 == 1:
            sp["weather"]["whole_degrees"] = True      # exact hits of the thermal thresholds
        if cat["CalendarType"] == 2:
            mth, dd = [int(x) for x in sp["crop"]["planting"].split("/")]
            h = dt.date(2001, mth, dd) + dt.timedelta(days=min(340, gen.crop_len_days(sp["crop"]["name"]) + 70))
            if not (h.month == 2 and h.day == 29):
                sp["crop"]["harvest"] = f"{h.month:02d}/{h.day:02d}"
        out.append({"spec": sp})
    return out


def state_diff(a, b):
    out = []
    for k in sorted(set(a) | set(b)):
        x, y = a.get(k), b.get(k)
        try:
            if isinstance(x, np.ndarray) or isinstance(y, np.ndarray):
                same = np.array_equal(np.asarray(x), np.asarray(y), equal_nan=True)
            else:
                same = (x == y) or (x != x and y != y)
        except Exception:
            same = False
        if not same and k not in ("time_step_counter",):
            out.append(k)
    return out


def first_diff(a, b):
    bad = np.argwhere(~((a == b) | (np.isnan(a) & np.isnan(b))))
    return (int(bad[0][0]), int(bad[0][1])) if len(bad) else None


def run_case(case):
    spec = case["spec"]
    acc = base.Acc(spec)
    cov = acc.cov
    M = sim.run(spec, opts=dict(ledger=False, irr=False, season_state=True))
    if M.status != "ok":
        return base.finish(spec, M, acc, False, instruments=("step",))
    trM = M.trace
    plant = [x for x in trM.init["planting"]]
    span0 = trM.init["span0"]
    method = S.irr_method(spec)
    # thini must not change in M
    digs = set(s["thini_dig"] for s in trM.steps)
    if len(digs) > 1:
        acc.add("initial-content-mutated", "the stored initial water content changed during the multi-season run", {})
    by_season = {}
    for s in trM.steps:
        if s["sc"] >= 0 and s["t"] >= (plant[s["sc"]] - span0).days:
            by_season.setdefault(s["sc"], []).append(s)
    nt = False
    smM = M.summary
    for k in sorted(by_season):
        rowsM = by_season[k]
        pk = (plant[k] - span0).days
        if k < 1 and pk < 1:
            continue            # season 0 of a run that starts on the planting date is the reference itself
        if k < 1:
            cov["cmp_season0_after_fallow_start"] += 1
        sp2 = copy.deepcopy(spec)
        sp2["start"] = plant[k].strftime("%Y/%m/%d")
        if pd.Timestamp(sp2["start"].replace("/", "-")) >= pd.Timestamp(spec["end"].replace("/", "-")) - pd.Timedelta(days=1):
            continue
        nk = len(rowsM)
        Sk = sim.run(sp2, opts=dict(ledger=False, irr=False, season_state=True), stepping=[nk + 3])
        cov["executions"] += 1
        if Sk.status != "ok":
            st, note = base.run_status(Sk)
            if st == "rejected":
                cov["partner_rejected"] += 1
                continue
            acc.add("partner-run-fails", f"season {k} simulated alone (start {sp2['start']}) does not run: {note}",
                    dict(k=k), site=f"{Sk.exc[2][0]}.{Sk.exc[2][1]}")
            continue
        rowsS = [s for s in Sk.trace.steps if s["sc"] == 0][:max(nk, 0) + 3]
        # season k of S ends at its harvest flag
        endS = next((i for i, s in enumerate(rowsS) if s["hf"]), len(rowsS) - 1)
        rowsS = rowsS[: endS + 1]
        cov["season_comparisons"] += 1
        cov[f"cmp_method_{method}"] += 1
        if acc.spec_feats.get("calendar_type") == 2:
            cov["cmp_thermal"] += 1
        if spec.get("gw"):
            cov["cmp_water_table"] += 1
        if (spec.get("fm") or {}).get("bunds"):
            cov["cmp_bunds"] += 1
        feats = dict(season=k)
        leak = state_diff(trM.season_state.get(k, {}), Sk.trace.season_state.get(0, {}))
        if len(rowsS) != nk:
            acc.add("season-length", f"season {k}: {nk} executed days in the multi-season run, {len(rowsS)} when "
                    f"simulated alone (entry-state fields that differ: {leak[:8]})",
                    dict(k=k, multi=nk, alone=len(rowsS), leaking_state=leak[:12]), feats)
        n = min(nk, len(rowsS))
        done = False
        for name, key, skip in (("water_flux", "flux", 2), ("crop_growth", "growth", 2), ("water_storage", "stor_row", 1)):
            a = np.array([r[key][skip:] for r in rowsM[:n]], dtype=float)
            b = np.array([r[key][skip:] for r in rowsS[:n]], dtype=float)
            cov["rows_compared"] += n
            d = first_diff(a, b)
            if d is not None and not done:
                cols = (common.FLUX_COLS if key == "flux" else common.GROWTH_COLS if key == "growth"
                        else ["time_step_counter", "growing_season", "dap"] + [f"th{i}" for i in range(1, 99)])
                col = cols[d[1] + skip]
                acc.add("season-rows-differ",
                        f"season {k}, day {d[0] + 1}: {name}.{col} = {a[d]!r} in the multi-season run, {b[d]!r} when "
                        f"the season is simulated alone (entry-state fields that differ: {leak[:8]})",
                        dict(k=k, day=d[0] + 1, table=name, column=col, multi=float(a[d]), alone=float(b[d]),
                             leaking_state=leak[:12]), dict(feats, first_day=(d[0] == 0)))
                done = True
        # summary row
        inM = k in smM.index
        smS = Sk.summary
        inS = 0 in smS.index
        if inM != inS:
            if not (inM and not inS and len(rowsS) < nk):
                acc.add("summary-presence", f"season {k}: summary row {'present' if inM else 'absent'} in the "
                        f"multi-season run, {'present' if inS else 'absent'} alone", dict(k=k), feats)
        elif inM:
            ra, rb = smM.loc[k], smS.loc[0]
            for col in common.SUMMARY_COLS[1:]:
                x, y = ra[col], rb[col]
                if col == "Harvest Date (Step)":
                    y = y + pk
                same = (x == y) or (isinstance(x, float) and isinstance(y, float) and x != x and y != y)
                if not same:
                    acc.add("summary-differs", f"season {k}: summary '{col}' {x!r} in the multi-season run, {y!r} alone",
                            dict(k=k, column=col), feats)
                    break
        if n >= 30:
            nt = True
    out = base.finish(spec, M, acc, nt, instruments=("step",),
                      sample_extra={"seasons": len(by_season), "comparisons": cov.get("season_comparisons", 0)})
    return out
