"""C14 No look-ahead - access monitor on the weather matrix plus differential monitors
(perturbation from a cut day on, padding outside the window, extension of the end date)."""
import copy
import datetime as dt

import numpy as np
import pandas as pd

from .. import common, gen, sim, spec as S
from . import base

ID = "C14"
TECHNIQUE = "runtime monitoring: logging ndarray subclass on the weather matrix (every index used to read it) + differential oracle over real runs with perturbed / padded / extended inputs"
ANCHORS = ["core.py", "timestep/run_single_timestep.py", "timestep/reset_initial_conditions.py",
           "initialize/compute_crop_calendar.py", "initialize/read_weather_inputs.py",
           "initialize/read_model_parameters.py", "solution/irrigation.py"]
RULE = ("base configuration plus partners: (1) every read of the weather matrix logged - for "
        "calendar-day crops step t may only read integer row t; (2) weather replaced from a cut day "
        "t* onwards (other synthetic regime/seed, or extremes: 300 mm/day, -20 C, 55 C, ET0 0.1/20), "
        "several t* per base, calendar-day crops; (3) 1-400 extra weather rows before and after the "
        "window, all crops; (4) end date moved later by 1 day .. 3 years, all crops with SwitchGDD=0; "
        "non-trivial = at least one partner pair compared over >= 20 rows; distinct = spec digest")
ASSUMPTIONS = [
    "rows/summary rows are compared bit for bit (NaN == NaN)",
    "for perturbations only rows of steps < t* and summary rows with harvest step < t* are compared",
    "a partner rejected by a documented growing-degree-day assertion makes that pair inconclusive",
]
FLOORS = {
    "quick": {"weather_reads": 10000, "perturbation_pairs": 120, "padding_pairs": 50, "extension_pairs": 50,
              "extension_pairs_thermal": 12, "rows_compared": 40000, "cd_steps_checked": 8000,
              "extensions_past_a_co2_record": 5},
    "thorough": {"weather_reads": 100000, "perturbation_pairs": 1200, "padding_pairs": 500,
                 "extension_pairs": 500, "extension_pairs_thermal": 120, "rows_compared": 400000,
                 "cd_steps_checked": 80000, "extensions_past_a_co2_record": 50},
}
CASE_TIMEOUT = {"quick": 400, "thorough": 1200}


def cases(tier, seed):
    n = base.n_cases(90, 900, tier)
    cd = [c for c in gen.usable_crops() if c in common.cd_crops()]
    th = [c for c in gen.usable_crops() if c in common.gdd_crops()]
    out = []
    for i in range(n):
        rng = gen.rng_for(seed, ID, i)
        thermal = (i % 3 == 2)
        sp = gen.config(rng, crops=(th if thermal else cd), seasons=(1, 3), p_gw=0.15, p_custom=0.2,
                        p_file=0.0, end_shape=gen.pick(rng, ["after", "mid", "after", "long"]),
                        harvest_early=0.1, p_co2=0.7, year_range=(1985, 2032),
                        regimes=(None if thermal else ["temperate", "cold", "warm", "humid", "arid", "monsoon"]))
        if i % 9 == 4 and not thermal:
            # dated inputs that precede the window (a multi-year schedule re-used for a later start)
            # and a window that ends inside a season: anything booked relative to the end would show
            import datetime as dt

            sp2 = gen.config(rng, crops=cd, seasons=(1, 2), p_gw=0.0, p_custom=0.1, p_file=0.0, end_shape="mid",
                             methods=(3,), year_range=(1985, 2032), pre=(0, 5))
            s0, e0 = S.d(sp2["start"]), S.d(sp2["end"])
            offs = sorted(set([-int(x) for x in rng.integers(1, 70, 6)] + [int(x) for x in rng.integers(0, (e0 - s0).days, 10)]))
            sp2["irr"]["schedule"] = [[gen.fmt(s0 + dt.timedelta(days=o)), float(gen.pick(rng, [10.0, 25.0, 40.0]))] for o in offs]
            sp2["irr"]["kw"].pop("MaxIrrSeason", None)
            sp2["irr"]["kw"].pop("MaxIrr", None)
            sp = sp2
        if i % 10 == 6 and not thermal:
            # an equable climate whose coldest night stays just above the crops' lower pollination
            # threshold while flowering nights are cool enough to matter: anything decided from the
            # extremes of the whole record changes when a frost arrives after the cut
            sp["weather"] = {"kind": "synth", "seed": int(rng.integers(0, 2 ** 31 - 1)), "regime": "temperate",
                             "params": {"tm": 13.6, "amp": 0.5, "tnoise": 0.2, "dtr": 14.0, "pstorm": 0.0}}
            sp["crop"]["name"] = gen.pick(rng, ["Maize", "Sunflower", "Sorghum", "Tomato"])
            sp["crop"]["kw"].pop("PolColdStress", None)
            sp["irr"] = {"method": 1, "kw": {"SMT": [70.0] * 4}, "schedule": None}
            force_kind = 2
        else:
            force_kind = None
        if i % 9 == 7:
            # a water-table record that goes on after the end date: its later part is configuration,
            # not something the end date may switch on or off
            e0, s0 = S.d(sp["end"]), S.d(sp["start"])
            v0 = float(gen.pick(rng, [0.8, 1.2, 1.8]))
            sp["gw"] = {"method": "Variable",
                        "dates": [sp["start"], gen.fmt(s0 + dt.timedelta(days=60)), gen.fmt(e0 + dt.timedelta(days=int(gen.pick(rng, [20, 100, 300]))))],
                        "values": [v0, round(v0 + 0.3, 2), round(v0 + float(gen.pick(rng, [-0.5, 0.9])), 2)]}
        if thermal and sp["weather"]["kind"] == "synth" and i % 2 == 0:
            # warm and cool years, default latest harvest date: whatever the model derives that
            # date from must not be something the end date or later weather can change
            sp["weather"].setdefault("params", {})["interannual"] = float(gen.pick(rng, [4.0, 6.0]))
            sp["crop"]["harvest"] = None
            long_ext = True
        if i % 6 == 3:
            # "constant at the level of the first simulated year": nothing later may enter that level
            sp["co2"] = {"constant_auto": True}
        ext_days = None
        if i % 9 == 2:
            # a CO2 record with gaps (projections: one value every five years) and an extension that
            # brings the next record inside the window: the concentration of a year between two
            # records is configuration, not something the end date may change
            y0, y1 = S.d(sp["start"]).year, S.d(sp["end"]).year
            k0 = int(gen.pick(rng, [y0, y1]))
            a = float(gen.pick(rng, [330.0, 369.41, 420.0]))
            sp["co2"] = {"series": [[y, round(a + 2.3 * (y - k0) + (9.0 if ((y - k0) // 5) % 2 else 0.0), 2)]
                                    for y in range(k0 - 15, y1 + 26, 5)]}
            ext_days = int(gen.pick(rng, [1830, 2200]))
        if i % 4 == 1:
            # one day of extreme evaporative demand in the first season: anything derived from
            # statistics of the whole record (which the end date and later weather change) shows
            gen.et0_spike(rng, sp)
        out.append({"spec": sp, "seed": int(rng.integers(0, 2 ** 31 - 1)), "force_kind": force_kind,
                    "long_ext": bool(locals().get("long_ext")), "ext_days": ext_days})
        long_ext = False
    return out


def cmp_rows(acc, clause, label, A, B, nrows, feats=None):
    """Compare the first nrows rows of the three tables; returns True if equal."""
    for name, a, b in zip(("water_flux", "water_storage", "crop_growth"), A, B):
        a, b = a[:nrows], b[:nrows]
        if a.shape != b.shape:
            acc.add(clause, f"{label}: {name} has shape {a.shape} vs {b.shape}", dict(label=label), feats)
            return False
        bad = np.argwhere(~((a == b) | (np.isnan(a) & np.isnan(b))))
        if len(bad):
            i, j = int(bad[0][0]), int(bad[0][1])
            acc.add(clause, f"{label}: {name}[{i},{j}] = {a[i, j]!r} vs {b[i, j]!r}",
                    dict(label=label, table=name, row=i, col=j), feats)
            return False
    return True


def cmp_summary(acc, clause, label, sa, sb, max_step=None, feats=None):
    for k in sa.index:
        ra = sa.loc[k]
        if max_step is not None and int(ra["Harvest Date (Step)"]) >= max_step:
            continue
        if k not in sb.index:
            acc.add(clause, f"{label}: season {k} has a summary row in the base run but not in the partner",
                    dict(label=label, k=int(k)), feats)
            return False
        rb = sb.loc[k]
        for col in common.SUMMARY_COLS:
            x, y = ra[col], rb[col]
            if not ((x == y) or (isinstance(x, float) and isinstance(y, float) and x != x and y != y)):
                acc.add(clause, f"{label}: season {k} summary '{col}' {x!r} vs {y!r}", dict(label=label, k=int(k)), feats)
                return False
    return True


def run_case(case):
    spec = case["spec"]
    acc = base.Acc(spec)
    cov = acc.cov
    rng = np.random.default_rng(case["seed"])
    cd = acc.spec_feats.get("calendar_type") == 1
    B = sim.run(spec, opts=dict(ledger=False, irr=False, spy=True))
    if B.status != "ok":
        return base.finish(spec, B, acc, False, instruments=("step",))
    tr = B.trace
    S0 = S.d(spec["start"])
    # ---- (1) access monitor ------------------------------------------------------------
    n_span = tr.init["n_span"]
    cov["weather_reads"] += len(tr.reads)
    for s in tr.steps:
        t = s["t"]
        rows = [r for r in s["reads"] if r[1] == "row"]
        others = [r for r in s["reads"] if r[1] != "row"]
        for r in rows:
            if not (0 <= r[2] < n_span):
                acc.add("read-outside-window", f"step {t}: weather row {r[2]} read (window has {n_span} rows)", dict(t=t))
        if cd:
            cov["cd_steps_checked"] += 1
            if [r[2] for r in rows] != [t] or others:
                acc.add("weather-read-not-today",
                        f"step {t} of a calendar-day crop read weather rows {[r[2] for r in rows]} and made "
                        f"{len(others)} slice/mask reads {[(r[1], r[2]) for r in others][:3]}; expected exactly row {t}",
                        dict(t=t, rows=[r[2] for r in rows], other=[(r[1], str(r[2])) for r in others][:5]))
        else:
            if not rows or rows[-1][2] != t:
                acc.add("weather-read-not-today", f"step {t}: the step's weather row read was {rows[-1:]}", dict(t=t))
    A = B.tables
    N = len(A[0])
    steps_t = [s["t"] for s in tr.steps]
    nt = False
    # ---- (2) perturbation from a cut day -------------------------------------------------
    if cd and spec["weather"]["kind"] == "synth" and len(steps_t) > 5:
        cuts = set(int(x) for x in rng.choice(steps_t[1:], size=min(3, len(steps_t) - 1), replace=False))
        # boundary-directed cuts: the day after a day whose weather sits on a documented bound
        # (ET0 at the 0.1 floor, a dry day, a frost day) - where a neighbour-reading slip would show
        wl = base.weather_lookup(B.kw)
        exec_set = set(steps_t)
        special = [t for t in steps_t[:-1] if (t + 1) in exec_set and wl[(S0 + dt.timedelta(days=t))][3] <= 0.1]
        if special:
            cuts.add(int(special[int(rng.integers(0, len(special)))]) + 1)
            cov["cuts_after_et0_floor"] += 1
        cuts = sorted(cuts)
        for tstar in cuts:
            sp2 = copy.deepcopy(spec)
            day = S0 + dt.timedelta(days=tstar)
            kind = int(rng.integers(0, 4))
            if case.get("force_kind") is not None:
                kind = int(case["force_kind"])
            if kind == 0:
                sp2["weather"]["switch"] = {"from": gen.fmt(day), "to": {"kind": "synth", "seed": int(rng.integers(0, 2 ** 31 - 1)),
                                                                          "regime": gen.pick(rng, gen.ALL_REGIMES)}}
            else:
                eps = sp2["weather"].setdefault("episodes", [])
                if kind == 1:
                    eps.append({"var": "Precipitation", "from": gen.fmt(day), "days": 20000, "value": 300.0})
                    eps.append({"var": "ReferenceET", "from": gen.fmt(day), "days": 20000, "value": 0.1})
                elif kind == 2:
                    eps.append({"var": "frost", "from": gen.fmt(day), "days": 20000, "value": -20.0, "tmax": -5.0})
                    eps.append({"var": "Precipitation", "from": gen.fmt(day), "days": 20000, "value": 0.0})
                else:
                    eps.append({"var": "heat", "from": gen.fmt(day), "days": 20000, "value": 55.0, "tmin": 35.0})
                    eps.append({"var": "ReferenceET", "from": gen.fmt(day), "days": 20000, "value": 20.0})
            P = sim.run(sp2, opts=dict(ledger=False, irr=False))
            cov["executions"] += 1
            if P.status != "ok":
                st, note = base.run_status(P)
                if st != "rejected":
                    cov["partner_errors"] += 1
                continue
            cov["perturbation_pairs"] += 1
            cov["rows_compared"] += tstar
            label = f"weather changed from step {tstar} on (kind {kind})"
            ok = cmp_rows(acc, "past-depends-on-future-weather", label, A, P.tables, tstar, dict(cut=tstar))
            if ok:
                cmp_summary(acc, "past-depends-on-future-weather", label, B.summary, P.summary, max_step=tstar)
            if tstar >= 20:
                nt = True
    # ---- (3) padding -------------------------------------------------------------------------
    if spec["weather"]["kind"] == "synth":
        sp3 = copy.deepcopy(spec)
        sp3["pad_before"] = int(rng.choice([1, 7, 120, 400]))
        sp3["pad_after"] = int(rng.choice([1, 7, 120, 400]))
        if sp3["pad_before"] >= 7 and rng.random() < 0.6:
            # the extra records need not be contiguous: holes before and after the window
            sp3["pad_gap"] = {"before": [int(x) for x in rng.integers(2, sp3["pad_before"], 2)],
                              "after": [int(x) for x in rng.integers(2, max(3, sp3["pad_after"]), 2)]}
            cov["padding_pairs_with_gaps"] += 1
        eps = sp3["weather"].setdefault("episodes", [])
        eps.append({"var": "ReferenceET", "from": gen.fmt(S0 - dt.timedelta(days=sp3["pad_before"])),
                    "days": sp3["pad_before"], "value": 9.5})
        eps.append({"var": "Precipitation", "from": gen.fmt(S0 - dt.timedelta(days=sp3["pad_before"])),
                    "days": sp3["pad_before"], "value": 250.0})
        eps.append({"var": "heat", "from": gen.fmt(S.d(spec["end"]) + dt.timedelta(days=1)),
                    "days": sp3["pad_after"], "value": 55.0})
        P = sim.run(sp3, opts=dict(ledger=False, irr=False))
        cov["executions"] += 1
        if P.status == "ok":
            cov["padding_pairs"] += 1
            cov["rows_compared"] += N
            label = f"{sp3['pad_before']} extra weather rows before and {sp3['pad_after']} after the window"
            if cmp_rows(acc, "records-outside-window-matter", label, A, P.tables, N):
                cmp_summary(acc, "records-outside-window-matter", label, B.summary, P.summary)
            nt = nt or N >= 20
        elif base.run_status(P)[0] != "rejected":
            st, note = base.run_status(P)
            acc.add("records-outside-window-matter", f"with extra weather rows outside the window the run fails: {note}",
                    dict(pad=(sp3["pad_before"], sp3["pad_after"])), site=f"{P.exc[2][0]}.{P.exc[2][1]}")
    # ---- (4) extension of the end date -------------------------------------------------------
    if len(B.summary) and spec["weather"]["kind"] == "synth":
        ext = int(rng.choice([1, 2, 30, 200, 365, 800, 1095]))
        if case.get("long_ext"):
            ext = int(rng.choice([730, 1095, 1461]))      # several more seasons enter the window
        if case.get("ext_days"):
            ext = int(case["ext_days"])                    # the next sparse CO2 record enters the window
            cov["extensions_past_a_co2_record"] += 1
        elif rng.random() < 0.4:
            # the new end date falls on / next to a planting date
            e0 = S.d(spec["end"])
            pm, pd_ = [int(x) for x in spec["crop"]["planting"].split("/")]
            nxt = dt.date(e0.year, pm, pd_)
            while nxt <= e0 + dt.timedelta(days=1):
                nxt = dt.date(nxt.year + 1, pm, pd_)
            nxt = dt.date(nxt.year + int(rng.integers(0, 2)), pm, pd_)
            ext = (nxt - e0).days + int(rng.choice([-1, 0, 0, 1]))
            cov["extensions_to_a_planting_date"] += 1
        sp4 = copy.deepcopy(spec)
        sp4["end"] = gen.fmt(S.d(spec["end"]) + dt.timedelta(days=ext))
        P = sim.run(sp4, opts=dict(ledger=False, irr=False))
        cov["executions"] += 1
        if P.status == "ok":
            cov["extension_pairs"] += 1
            if not cd:
                cov["extension_pairs_thermal"] += 1
            hs = int(B.summary["Harvest Date (Step)"].iloc[-1])
            if cd:
                # a calendar-day crop has no look-ahead at all: every day the shorter run executed
                # (an unfinished last season included) must be reproduced by the longer one
                hs = max(hs, steps_t[-1] - 1)
            cov["rows_compared"] += hs + 1
            label = f"end date moved {ext} days later"
            if cmp_rows(acc, "completed-season-depends-on-end-date", label, A, P.tables, hs + 1, dict(ext=ext)):
                cmp_summary(acc, "completed-season-depends-on-end-date", label, B.summary, P.summary)
            nt = nt or hs >= 20
        else:
            st, note = base.run_status(P)
            if st == "rejected":
                cov["extension_rejected"] += 1
            else:
                acc.add("completed-season-depends-on-end-date", f"with the end date moved {ext} days later the run "
                        f"fails: {note}", dict(ext=ext), site=f"{P.exc[2][0]}.{P.exc[2][1]}")
    return base.finish(spec, B, acc, nt, instruments=("step", "weather_read"),
                       sample_extra={"reads": len(tr.reads), "perturbation_pairs": cov.get("perturbation_pairs", 0)})
