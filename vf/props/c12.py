"""C12 Configured parameters and weather stay read-only while stepping - write protection
(the mprotect/ASan idea in numpy form) plus content digests of every parameter group."""
import numpy as np

from .. import common, gen, instrument as I, sim
from . import base

ID = "C12"
TECHNIQUE = ("runtime monitoring: write-protected parameter arrays (sanitizer) + per-step content "
             "digests of parameter groups")
ANCHORS = ["solution/rainfall_partition.py", "solution/germination.py", "solution/root_zone_water.py",
           "solution/evap_layer_water_content.py", "timestep/reset_initial_conditions.py",
           "timestep/run_single_timestep.py", "solution/check_groundwater_table.py"]
RULE = ("random valid configurations with curve-number / germination depths on and off the "
        "compartment grid, uneven compartment thicknesses, profiles deepened for deep-rooted "
        "crops, all strategies, water tables, thermal crops over several seasons; non-trivial = "
        ">= 30 executed steps with digests taken before and after every step; distinct = spec digest")
ASSUMPTIONS = [
    "the fallow filler crop is excluded (the model re-assigns two of its fields idempotently on fallow days)",
    "a season's crop object and the CO2 object may change only inside the reset that starts that season",
    "the object-dtype weather matrix is digested at the start, at every season reset and at the end; in between it is covered by write protection",
]
FLOORS = {
    "quick": {"steps": 30000, "digests": 60000, "cfg_zcn_inside_compartment": 40, "cfg_deepened": 40,
              "resets": 60, "allowed_crop_changes": 20, "protected_arrays": 4000},
    "thorough": {"steps": 300000, "digests": 600000, "cfg_zcn_inside_compartment": 400,
                 "cfg_deepened": 400, "resets": 600, "allowed_crop_changes": 200,
                 "protected_arrays": 40000},
}


def cases(tier, seed):
    n = base.n_cases(300, 3000, tier)
    deep = ["Maize", "MaizeGDD", "Cotton", "Sunflower", "SoybeanGDD", "AlfalfaGDD", "Sorghum", "Wheat"]
    out = []
    for i in range(n):
        rng = gen.rng_for(seed, ID, i)
        cls = i % 4
        kw = dict(seasons=(1, 3), p_gw=0.25, p_custom=0.3, p_dz=0.5, zgrid_off=(cls in (0, 1)),
                  flags=(i % 3 == 0), hostile=(i % 5 == 0), dry=(i % 6 == 0))
        if cls == 1:
            kw.update(crops=deep)
        elif cls == 2:
            kw.update(crops=[c for c in gen.usable_crops() if c in common.gdd_crops()], seasons=(2, 3),
                      off_season=False)
        sp = gen.config(rng, **kw)
        if cls in (0, 1):
            k = sp["soil"]["kw"]
            k.setdefault("z_cn", float(gen.pick(rng, [0.05, 0.12, 0.15, 0.25, 0.33, 0.35, 0.45, 0.55])))
            k.setdefault("z_germ", float(gen.pick(rng, [0.05, 0.12, 0.15, 0.25, 0.35, 0.45])))
            k.setdefault("adj_cn", 1)
        if i % 6 == 4:
            gen.low_et0(rng, sp)      # days with a reference ET below 0.1 mm
        out.append({"spec": sp})
    return out


def monitor(spec, res, acc):
    tr = res.trace
    p = tr.init
    cov = acc.cov
    # (i) a write to a protected array surfaces as ValueError at the faulting statement
    if res.status == "error" and "read-only" in res.exc[1]:
        site = res.exc[2]
        acc.add("write-to-protected-array",
                f"{site[0]}.{site[1]}:{site[2]} wrote to a read-only parameter array: `{site[3].strip()}`",
                dict(site=list(site), traceback=res.exc[3][-800:]), site=f"{site[0]}.{site[1]}")
    resets = {}
    for r in tr.resets:
        resets.setdefault(r["t"], r["sc"])
    cov["resets"] += len(tr.resets)
    prevg = p.get("groups")
    for (t, ph, g) in tr.dig:
        cov["digests"] += 1
        for k, v in g.items():
            if prevg is None or prevg.get(k) == v:
                continue
            ok = False
            if (k.startswith("crop") or k == "co2") and ph == "pre" and t in resets:
                ok = (k == "co2") or (k == f"crop{resets[t]}")
            if ok:
                cov["allowed_crop_changes" if k != "co2" else "allowed_co2_changes"] += 1
            else:
                when = f"during step {t}" if ph == "post" else f"between the previous step and step {t}"
                acc.add("parameter-changed", f"parameter group '{k}' changed {when}",
                        dict(group=k, t=t, phase=ph, reset_here=(t in resets)), dict(group=k))
        prevg = g
    wd = [d for _, d in tr.wdig]
    if p.get("weather_dig") and any(d != p["weather_dig"] for d in wd):
        which = [lab for lab, d in tr.wdig if d != p["weather_dig"]][0]
        acc.add("weather-changed", f"the weather records changed (first seen at {which})", dict(at=which))
    cov["weather_digests"] += len(wd)
    cov["protected_arrays"] += tr.n.get("protected_arrays", 0)
    # coverage classes
    dzsum = np.asarray(p.get("dzsum", []), float)
    zcn = p.get("soil", {}).get("z_cn")
    if len(dzsum) and zcn is not None and not np.any(np.abs(dzsum - zcn) < 1e-9) and zcn < dzsum[-1]:
        cov["cfg_zcn_inside_compartment"] += 1
    dz_spec = spec["soil"].get("kw", {}).get("dz")
    dz0 = dz_spec if dz_spec is not None else ([0.1] * 12 if spec["soil"]["type"] != "ac_TunisLocal"
                                                else [0.1] * 6 + [0.15] * 5 + [0.2])
    if len(dzsum) and abs(float(dzsum[-1]) - round(sum(dz0), 2)) > 1e-9:
        cov["cfg_deepened"] += 1
    return len(tr.steps) >= 30 and len(tr.dig) >= 60


def run_case(case):
    spec = case["spec"]
    res = sim.run(spec, opts=dict(ledger=False, irr=False, digests=True, protect=True))
    acc = base.Acc(spec)
    nt = monitor(spec, res, acc) if res.trace.init else False
    if res.status == "error" and acc.v and acc.v[0]["clause"] == "write-to-protected-array":
        res.status = "ok"   # decided: the exception *is* the verdict
    return base.finish(spec, res, acc, nt, instruments=("step", "protected_arrays"),
                       sample_extra={"digests": len(res.trace.dig), "resets": len(res.trace.resets)})
