"""C03 Soil water content and ponding stay within physical limits - row monitor."""
import numpy as np

from .. import gen, sim
from . import base
from .base import FX

ID = "C03"
ANCHORS = ["solution/drainage.py", "solution/infiltration.py", "solution/soil_evaporation.py",
           "solution/transpiration.py", "solution/capillary_rise.py",
           "solution/groundwater_inflow.py", "solution/pre_irrigation.py"]
RULE = ("random valid configurations starting between wilting point and saturation: saturated "
        "starts on low-Ksat layered soils, 300 mm storms, multi-year droughts, shallow tables, "
        "net irrigation, initial ponding above the bund height; non-trivial = >= 30 executed "
        "days and some compartment within 1e-3 of a bound on some day; distinct = spec digest")
ASSUMPTIONS = [
    "bounds th_dry/th_s are the profile arrays captured right after _initialize()",
    "only the end-of-day state decides; per-process minima are diagnostic",
]
FLOORS = {
    "quick": {"days": 5000, "d_near_sat": 200, "d_near_dry": 100, "d_pond_full": 30,
              "d_pond": 100, "compartment_checks": 60000},
    "thorough": {"days": 50000, "d_near_sat": 2000, "d_near_dry": 1000, "d_pond_full": 300,
                 "d_pond": 1000, "compartment_checks": 600000},
}
E = 1e-9


def cases(tier, seed):
    n = base.n_cases(300, 3000, tier)
    out = []
    for i in range(n):
        rng = gen.rng_for(seed, ID, i)
        cls = i % 6
        kw = dict(hostile=True, p_gw=0.25, p_bunds=0.3, p_custom=0.45, seasons=(1, 3))
        if cls == 1:   # saturated start, low conductivity, storms
            kw.update(wet=True, low_ksat=True, p_custom=0.7, regimes=["monsoon", "humid"], p_file=0)
        elif cls == 2:  # multi-year drought from a dry start: stage-2 evaporation deepens
            kw.update(dry=True, regimes=["arid", "hot"], p_file=0, seasons=(2, 3), off_season=True,
                      methods=(0, 0, 4, 1))
        elif cls == 3:  # shallow tables
            kw.update(p_gw=1.0, gw_depths=(0.2, 0.4, 0.8, 1.2, 2.0))
        elif cls == 4:  # bunds with initial ponding above the bund height
            kw.update(p_bunds=1.0, soil_names=["Paddy", "Clay", "SiltClay", "Loam"], p_custom=0.1)
            if i % 12 == 4:
                kw.update(crops=["PaddyRice", "PaddyRiceGDD"], dry=True, regimes=["monsoon", "humid"], p_file=0.0)
        elif cls == 5 and i % 12 == 5:   # net irrigation on layered soils (coarse over fine and the reverse)
            kw.update(methods=(4,), p_custom=1.0, seasons=(1, 2), crops=["Maize", "Cotton", "Sorghum", "Sunflower", "Wheat"])
        sp = gen.config(rng, **kw)
        if cls == 2:
            sp["weather"].setdefault("params", {}).update(pwet=0.0, pstorm=0.0)
        out.append({"spec": sp, "again": bool(cls == 4 and i % 2 == 0)})
    return out


def monitor(spec, res, acc):
    tr = res.trace
    base.check_initial_pond(spec, tr, acc)
    p = tr.init
    cov = acc.cov
    dry, sat = np.asarray(p["th_dry"], float), np.asarray(p["th_s"], float)
    near = False
    for s in tr.steps:
        t = s["t"]
        th = s["th1"]
        cov["days"] += 1
        cov["compartment_checks"] += len(th)
        lo = th - dry
        hi = sat - th
        if not np.all(np.isfinite(th)):
            acc.add("non-finite", f"step {t}: water content not finite", dict(t=t))
            continue
        if lo.min() < -E:
            i = int(lo.argmin())
            who = [e["p"] for e in s["ledger"] if e["lo"] < -E][:1]
            acc.add("below-air-dry", f"step {t}: th[{i}]={th[i]!r} below air-dry {dry[i]!r}"
                    + (f" (first left by {who[0]})" if who else ""),
                    dict(t=t, comp=i, th=float(th[i]), th_dry=float(dry[i]), process=who))
        if hi.min() < -E:
            i = int(hi.argmin())
            who = [e["p"] for e in s["ledger"] if e["hi"] < -E][:1]
            acc.add("above-saturation", f"step {t}: th[{i}]={th[i]!r} above saturation {sat[i]!r}"
                    + (f" (first left by {who[0]})" if who else ""),
                    dict(t=t, comp=i, th=float(th[i]), th_s=float(sat[i]), process=who))
        # the bund height the *user* configured (m -> mm), not the model's own copy of it
        um = (spec.get("fm") if s["gs"] else spec.get("ffm")) or {}
        cap = float(um.get("z_bund", 0.0)) * 1000.0 if um.get("bunds") and float(um.get("z_bund", 0.0)) * 1000.0 > 0.001 else 0.0
        pond = s["pond1"]
        if pond < -1e-12:
            acc.add("pond-negative", f"step {t}: ponding {pond!r}", dict(t=t, pond=pond))
        if pond > cap + E:
            if cap == 0:
                acc.add("pond-without-bunds", f"step {t}: ponding {pond!r} mm with no bunds in force",
                        dict(t=t, pond=pond))
            else:
                acc.add("pond-above-bund", f"step {t}: ponding {pond!r} mm above the bund height {cap!r}",
                        dict(t=t, pond=pond, z_bund=cap))
        wr = s["flux"][FX["Wr"]]
        if not wr >= 0:
            acc.add("root-zone-storage-negative", f"step {t}: Wr={wr!r}", dict(t=t, Wr=float(wr)))
        if hi.min() < 1e-6:
            cov["d_near_sat"] += 1
        if lo.min() < 1e-4:
            cov["d_near_dry"] += 1
        if hi.min() < 1e-3 or lo.min() < 1e-3:
            near = True
        if pond > 0:
            cov["d_pond"] += 1
        if cap > 0 and s["flux"][FX["Runoff"]] > 0:
            cov["d_pond_full"] += 1   # bunds overtopped: the pond stood at bund height that day
    return len(tr.steps) >= 30 and near


def run_case(case):
    spec = case["spec"]
    res = sim.run(spec, opts=dict(ledger=True, irr=False))
    acc = base.Acc(spec)
    nt = monitor(spec, res, acc) if res.trace.steps else False
    if case.get("again") and res.status == "ok":
        # the same user objects in a second model: the limits are still the configured ones
        res2 = sim.run(spec, kw=res.kw, opts=dict(ledger=True, irr=False))
        acc.cov["executions"] += 1
        acc.cov["second_runs_on_same_objects"] += 1
        if res2.trace.steps:
            monitor(spec, res2, acc)
    return base.finish(spec, res, acc, nt, instruments=("step",),
                       sample_extra={"near_sat_days": acc.cov.get("d_near_sat", 0),
                                     "near_dry_days": acc.cov.get("d_near_dry", 0)})
