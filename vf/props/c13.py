"""C13 Irrigation strategies honour their contracts - contract monitor on every irrigation call."""
import numpy as np
import pandas as pd

from .. import gen, sim
from . import base
from .base import FX

ID = "C13"
TECHNIQUE = "runtime monitoring: contract checker over the recorded arguments/results of every irrigation call"
ANCHORS = ["solution/irrigation.py", "solution/transpiration.py", "solution/pre_irrigation.py",
           "initialize/read_irrigation_management.py", "solution/root_zone_water.py"]
RULE = ("all six strategies x MaxIrr {0,5,15,40,default} x seasonal cap {0,50,200,600,default} x "
        "AppEff 50-100 x distinct thresholds per growth stage x interval 1-14 x schedules with dates "
        "before planting, after harvest, outside the window and on day 1; non-trivial = >= 30 "
        "in-season irrigation calls of which >= 1 applied water (strategies 1,2,3,5) or a net "
        "requirement (4); distinct = spec digest")
ASSUMPTIONS = [
    "the seasonal total is accumulated by the monitor from the applications it observed, not read from the model",
    "scheduled depth of a day is looked up in the user's schedule by date",
    "for the threshold strategy the trigger and amount are judged against the model's own depletion estimate, which is itself compared with an independent recomputation (tolerance 0.01 mm per root-zone compartment, the model's rounding)",
    "the efficiency adjustment may be anything between none-excluded (Irr > D) and the exact 1/e",
]
FLOORS = {
    "quick": {"calls": 20000, "in_season_calls": 8000, "smt_triggers": 300, "smt_untriggered": 1000,
              "interval_events": 200, "schedule_events": 60, "constant_events": 500, "cap_limited": 40,
              "maxirr_limited": 100, "net_days": 300, "depletion_checks": 8000},
    "thorough": {"calls": 200000, "in_season_calls": 80000, "smt_triggers": 3000,
                 "smt_untriggered": 10000, "interval_events": 2000, "schedule_events": 600,
                 "constant_events": 5000, "cap_limited": 400, "maxirr_limited": 1000, "net_days": 3000,
                 "depletion_checks": 80000},
}
E = 1e-9


def cases(tier, seed):
    n = base.n_cases(330, 3300, tier)
    out = []
    for i in range(n):
        rng = gen.rng_for(seed, ID, i)
        m = i % 6
        kw = dict(methods=(m,), seasons=(1, 3), p_gw=0.1, p_custom=0.2, limits=0.5, p_bunds=0.1,
                  regimes=["arid", "warm", "hot", "temperate", "monsoon"], p_file=0.25)
        if m == 1 and i % 12 == 1:
            kw.update(pre=(0,), iwc_kinds=("Pct",), p_gw=0.0)      # the season starts on the first simulated day
        if m == 1 and i % 12 == 7:
            kw.update(dry=True, regimes=["arid", "hot"], p_file=0.0, p_gw=0.0)
        if m == 3 and i % 12 == 3:
            kw.update(end_shape="mid", seasons=(1, 2))       # the window ends inside a growing season
        sp = gen.config(rng, **kw)
        if m == 3 and i % 12 == 3:
            # a schedule kept from earlier years: entries dated up to a few months before the start
            import datetime as dt

            s0 = base.S.d(sp["start"])
            old = [[gen.fmt(s0 - dt.timedelta(days=int(d))), float(gen.pick(rng, [15.0, 25.0, 40.0]))]
                   for d in sorted(set(int(x) for x in rng.integers(1, 120, 25)))]
            have = set(d_ for d_, _ in (sp["irr"].get("schedule") or []))
            sp["irr"]["schedule"] = [e for e in old if e[0] not in have] + list(sp["irr"].get("schedule") or [])
        if m == 1:
            vals = [float(x) for x in rng.permutation([30, 50, 70, 90])]
            sp["irr"]["kw"]["SMT"] = vals
        if m == 1 and i % 12 == 1:
            # day-1 depletion between the first and the last stage's allowable depletion
            nl = base.S.n_layers(sp)
            sp["iwc"] = {"wc_type": "Pct", "method": "Layer", "depth_layer": list(range(1, nl + 1)),
                         "value": [float(gen.pick(rng, [40, 50, 60]))] * nl}
            a, b = (30.0, 70.0) if i % 24 == 1 else (70.0, 30.0)
            sp["irr"]["kw"]["SMT"] = [a, 50.0, 50.0, b]
        if m == 1 and i % 12 == 7:
            # stages that tolerate the depletion of all available water (threshold 0 % TAW left):
            # irrigation is due only once the root zone is drier than wilting point
            sp["irr"]["kw"]["SMT"] = [float(x) for x in gen.pick(rng, [[0, 0, 0, 0], [0, 40, 0, 0], [20, 0, 0, 10]])]
            nl = base.S.n_layers(sp)
            sp["iwc"] = {"wc_type": "Prop", "method": "Layer", "depth_layer": list(range(1, nl + 1)), "value": ["WP"] * nl}
            sp["weather"].setdefault("params", {}).update(pwet=0.0, pstorm=0.0)
        out.append({"spec": sp})
    return out


def ref_depletion(c, prof):
    """Independent estimate of root-zone depletion / TAW as irrigation() documents it."""
    crop = c["crop"]
    zmin = float(crop.Zmin)
    rootdepth = round(max(c["z_root"], zmin), 2)
    dz, dzsum = prof["dz"], prof["dzsum"]
    th = c["th"]
    wr = wfc = wwp = 0.0
    n = 0
    for i in range(len(dz)):
        top = dzsum[i] - dz[i]
        if top >= rootdepth - 1e-12:
            break
        frac = 1.0 if dzsum[i] <= rootdepth else 1 - (dzsum[i] - rootdepth) / dz[i]
        wr += frac * 1000 * th[i] * dz[i]
        wfc += frac * 1000 * prof["th_fc"][i] * dz[i]
        wwp += frac * 1000 * prof["th_wp"][i] * dz[i]
        n += 1
    taw = max(wfc - wwp, 0.0)
    dr = min(wfc - wr, taw)
    # the model converts the excess above field capacity back to mm with the unrounded depth
    abv = max(wr - wfc, 0.0) * (max(c["z_root"], zmin) / rootdepth)
    d = dr + c["t_pot"] + c["e_pot"] - c["rain"] + c["runoff"] - abv
    return d, taw, n


def monitor(spec, res, acc):
    tr = res.trace
    cov = acc.cov
    irr = spec.get("irr") or {"method": 0, "kw": {}}
    method = int(irr["method"])
    kw = irr.get("kw", {})
    maxirr = float(kw.get("MaxIrr", 25.0))
    cap_season = float(kw.get("MaxIrrSeason", 10000.0))
    eff = float(kw.get("AppEff", 100.0)) / 100.0
    interval = int(kw.get("IrrInterval", 3 if method == 2 else 0))
    depth = float(kw.get("depth", 0.0))
    smt = [float(x) for x in kw.get("SMT", [100.0] * 4 if method == 1 else [0.0] * 4)]
    sched = {}
    for d_, v in (irr.get("schedule") or []):
        sched[pd.Timestamp(d_.replace("/", "-")).date()] = float(v)
    prof = {k: np.asarray(tr.init[k], float) for k in ("dz", "dzsum", "th_fc", "th_wp")}
    steps = {s["t"]: s for s in tr.steps}
    ncomp = len(tr.dz0)
    total = 0.0
    cur_season = None
    applied = 0
    last_stage = {}
    per_step = {}
    for c in tr.irr_calls:
        cov["calls"] += 1
        t = c["t"]
        per_step[t] = per_step.get(t, 0) + 1
        s = steps.get(t)
        I_ = c["Irr"]
        if c["method"] != (method if (s is None or s["sc"] >= 0) else 0):
            acc.add("strategy-binding", f"step {t}: irrigation ran with strategy {c['method']}, configured {method}",
                    dict(t=t))
        if not c["gs"]:
            if I_ != 0:
                acc.add("irrigation-off-season", f"step {t}: {I_!r} mm applied outside the growing season",
                        dict(t=t, Irr=I_))
            if s is not None and s["flux"][FX["IrrDay"]] != 0:
                acc.add("irrigation-off-season", f"step {t}: IrrDay column {s['flux'][FX['IrrDay']]!r} outside "
                        "the growing season", dict(t=t))
            continue
        cov["in_season_calls"] += 1
        sc = s["sc"] if s is not None else None
        # days after planting as the model's state has them, not as they were passed to irrigation()
        dap = s["dap"] if (s is not None and s["gs"]) else c["dap"]
        if dap != c["dap"]:
            acc.add("dap-binding", f"step {t}: irrigation was evaluated for day {c['dap']} after planting, the "
                    f"season is on day {dap}", dict(t=t, passed=c["dap"], actual=dap))
        if dap == 1 or sc != cur_season:
            total = 0.0
            cur_season = sc
        if s is not None and s["gs"] and method != 4 and s["flux"][FX["IrrDay"]] != I_:
            acc.add("row-binding", f"step {t}: IrrDay column {s['flux'][FX['IrrDay']]!r} != applied irrigation {I_!r}",
                    dict(t=t))
        if I_ < 0:
            acc.add("irrigation-negative", f"step {t}: irrigation {I_!r}", dict(t=t))
        if method in (0, 4):
            if I_ != 0:
                acc.add("surface-irrigation-in-rainfed-or-net", f"step {t}: {I_!r} mm applied under strategy {method}",
                        dict(t=t, Irr=I_))
            if method == 4 and s is not None:
                cov["net_days"] += 1
                v = s["flux"][FX["IrrDay"]]
                if v < -0.01 * ncomp:
                    acc.add("net-requirement-negative", f"step {t}: net irrigation requirement {v!r}", dict(t=t))
                if v > 0:
                    applied += 1
            continue
        cap = max(0.0, cap_season - total)
        M = min(maxirr, cap)
        if I_ > maxirr + E:
            acc.add("daily-maximum", f"step {t}: applied {I_!r} mm > MaxIrr {maxirr}", dict(t=t, Irr=I_, MaxIrr=maxirr))
        if total + I_ > cap_season + 1e-9:
            acc.add("seasonal-maximum", f"step {t}: season total {total + I_!r} mm > MaxIrrSeason {cap_season}",
                    dict(t=t, total=total + I_, cap=cap_season))
        day = s["date"].date() if s is not None else None
        if method == 2:
            on_day = interval > 0 and (dap - 1) % interval == 0
            if I_ > 0 and not on_day:
                acc.add("interval-day", f"step {t}: irrigation on day {dap} after planting, interval {interval}",
                        dict(t=t, dap=dap, interval=interval))
            if on_day:
                cov["interval_days"] += 1
                if I_ > 0:
                    cov["interval_events"] += 1
        elif method == 3:
            want = min(maxirr, sched.get(day, 0.0), cap)
            if abs(I_ - want) > 1e-12:
                acc.add("schedule", f"step {t} ({day}): applied {I_!r} mm, schedule says "
                        f"{sched.get(day, 0.0)!r} (MaxIrr {maxirr}, remaining seasonal allowance {cap!r})",
                        dict(t=t, Irr=I_, scheduled=sched.get(day, 0.0), want=want))
            if sched.get(day, 0.0) > 0:
                cov["schedule_events"] += 1
        elif method == 5:
            want = min(maxirr, depth, cap)
            if abs(I_ - want) > 1e-12:
                acc.add("constant-depth", f"step {t}: applied {I_!r} mm, expected min(MaxIrr {maxirr}, depth {depth}, "
                        f"allowance {cap!r}) = {want!r}", dict(t=t, Irr=I_, want=want))
            if want > 0:
                cov["constant_events"] += 1
        elif method == 1:
            stage = 1 if dap == 1 else int(c["stage"])
            if stage not in (1, 2, 3, 4):
                acc.add("growth-stage", f"step {t}: growth stage {c['stage']!r} on day {c['dap']}", dict(t=t))
                stage = min(max(stage, 1), 4)
            # the stage in force today is the one the crop calendar gives for yesterday's adjusted
            # time (calendar days or degree days since planting minus the germination delay)
            py = steps.get(t - 1)
            cr = tr.season_crop.get(sc)
            if dap > 1 and py is not None and py["gs"] and py["sc"] == sc and cr is not None:
                tadj = (py["dap"] - py["delayed_cds"]) if int(cr["CalendarType"]) == 1 else (py["gdd_cum"] - py["delayed_gdds"])
                want = 1 if tadj <= cr["Canopy10Pct"] else 2 if tadj <= cr["MaxCanopy"] else 3 if tadj <= cr["Senescence"] else 4
                cov["stage_checks"] += 1
                if want != stage:
                    acc.add("growth-stage", f"step {t}: irrigation used growth stage {stage}, the crop calendar gives stage "
                            f"{want} (adjusted time {tadj!r}; 10 % canopy {cr['Canopy10Pct']}, max canopy {cr['MaxCanopy']}, "
                            f"senescence {cr['Senescence']})", dict(t=t, used=stage, expected=want, tadj=float(tadj)))
            if sc in last_stage and stage < last_stage[sc] and dap != 1:
                acc.add("growth-stage", f"step {t}: growth stage fell from {last_stage[sc]} to {stage}", dict(t=t))
            last_stage[sc] = stage
            D, taw = c["depletion"], c["taw"]
            dref, tawref, ncz = ref_depletion(c, prof)
            cov["depletion_checks"] += 1
            # the model rounds every compartment's contribution to Wr, Wr(FC) and Wr(WP) to 0.01 mm:
            # TAW carries up to 0.01 mm per rooted compartment, the depletion (a difference of two
            # such sums, minus the equally rounded excess above field capacity) up to twice that
            tol = 0.01 * (ncz + 1) + 1e-9
            if abs(D - dref) > 2 * tol or abs(taw - tawref) > tol:
                acc.add("depletion-estimate", f"step {t}: model estimates depletion {D!r} / TAW {taw!r}, "
                        f"recomputation gives {dref!r} / {tawref!r}", dict(t=t, D=D, taw=taw, Dref=dref, tawref=tawref))
            thr = 1 - smt[stage - 1] / 100.0
            trig = taw > 0 and (D / taw) > thr
            if not trig:
                cov["smt_untriggered"] += 1
                if I_ != 0:
                    acc.add("threshold-untriggered", f"step {t}: {I_!r} mm applied although depletion/TAW "
                            f"{(D / taw if taw else float('nan'))!r} does not exceed {thr!r} (stage {stage})",
                            dict(t=t, Irr=I_, D=D, taw=taw, stage=stage, SMT=smt))
            else:
                cov["smt_triggers"] += 1
                Dp = max(0.0, D)
                lo, hi = min(Dp, M), min(Dp / eff, M)
                if not (lo - 1e-9 <= I_ <= hi + 1e-9):
                    acc.add("threshold-amount", f"step {t}: depletion {Dp!r} mm triggered irrigation of {I_!r} mm; "
                            f"expected between {lo!r} and {hi!r} (efficiency {eff}, MaxIrr {maxirr}, allowance {cap!r})",
                            dict(t=t, Irr=I_, D=Dp, lo=lo, hi=hi))
                elif eff < 1 and Dp > 1e-9 and Dp < M - 1e-9 and not I_ > Dp:
                    acc.add("threshold-efficiency", f"step {t}: efficiency {eff} but irrigation {I_!r} does not exceed "
                            f"the depletion {Dp!r}", dict(t=t, Irr=I_, D=Dp))
                elif eff == 1 and abs(I_ - min(Dp, M)) > 1e-9:
                    acc.add("threshold-amount", f"step {t}: at 100 % efficiency irrigation {I_!r} != depletion {Dp!r}",
                            dict(t=t))
        if I_ > 0:
            applied += 1
            if cap < maxirr and abs(I_ - cap) <= 1e-9:
                cov["cap_limited"] += 1
            if abs(I_ - maxirr) <= 1e-12 and maxirr < cap:
                cov["maxirr_limited"] += 1
        if I_ == 0 and cap <= 1e-12 and cap_season < 10000:
            cov["cap_exhausted_days"] += 1
        total += I_
        if abs(c["irr_cum1"] - total) > 1e-6 * max(1.0, total):
            acc.add("season-counter", f"step {t}: the model's seasonal irrigation counter {c['irr_cum1']!r} != "
                    f"sum of this season's applications {total!r}", dict(t=t, model=c["irr_cum1"], monitor=total))
            total = c["irr_cum1"] if np.isfinite(c["irr_cum1"]) else total
    dup = [t for t, k in per_step.items() if k != 1]
    if dup:
        acc.add("calls-per-step", f"irrigation was evaluated {per_step[dup[0]]}x in step {dup[0]}", dict(t=dup[0]))
    # ---- nothing between a season's harvest (as the seasonal summary records it) and the next
    # planting date: "growing season" here is the calendar's, not the model's in-season flag
    if res.summary is not None and len(res.summary) and method != 4:
        span0 = tr.init["span0"]
        pl = [int((x - span0).days) for x in tr.init["planting"]]
        hs = [int(x) for x in res.summary["Harvest Date (Step)"].tolist()]
        for k, h in enumerate(hs):
            nxt = pl[k + 1] if k + 1 < len(pl) else 10 ** 9
            for t in range(h + 1, min(nxt, h + 400)):
                s = steps.get(t)
                if s is None:
                    continue
                cov["fallow_days_after_harvest_checked"] += 1
                if s["flux"][FX["IrrDay"]] != 0:
                    acc.add("irrigation-off-season", f"step {t}: {s['flux'][FX['IrrDay']]!r} mm applied after the harvest of "
                            f"season {k} (step {h}) and before the next planting date", dict(t=t, harvest_step=h, season=k))
                    break
    return cov.get("in_season_calls", 0) >= 30 and (applied >= 1 or method == 0)


def run_case(case):
    spec = case["spec"]
    res = sim.run(spec, opts=dict(ledger=False, irr=True))
    acc = base.Acc(spec)
    nt = monitor(spec, res, acc) if res.trace.irr_calls else False
    return base.finish(spec, res, acc, nt, instruments=("step", "irrigation"),
                       sample_extra={"calls": len(res.trace.irr_calls),
                                     "smt_triggers": acc.cov.get("smt_triggers", 0)})
