"""C06 Yields and seasonal totals agree with the daily tables - row + summary monitor."""
import datetime as dt

import numpy as np
import pandas as pd

from .. import common, gen, sim
from . import base
from .base import FX, GX

ID = "C06"
ANCHORS = ["solution/biomass_accumulation.py", "solution/harvest_index.py",
           "timestep/run_single_timestep.py", "solution/transpiration.py",
           "solution/irrigation.py"]
RULE = ("random valid configurations over all strategies (net irrigation with pre-irrigation, "
        "binding seasonal cap), crops dying before maturity, user harvest dates before maturity, "
        "off-season runs, all 37 crops; non-trivial = >= 1 summary row and >= 30 in-season days "
        "with transpiration > 0; distinct = spec digest")
ASSUMPTIONS = [
    "reference ET of a day is read from the user's weather frame by date",
    "WP, WPy, fCO2, YldWC are read from that season's crop object at the season's first step",
    "biomass gain is a difference of cumulative values: relative slack 1e-9 + 1e-12*biomass/gain",
    "a harvest event is the first step of a season on which the harvest flag is raised",
]
FLOORS = {
    "quick": {"table_rows_unexecuted_checked": 1, "summary_rows": 250, "biomass_checks": 15000, "rows_dead_crop": 5, "rows_cap_binding": 10,
              "rows_net_irrigation": 20, "rows_harvest_date": 10, "d_ratio_below_one": 500},
    "thorough": {"table_rows_unexecuted_checked": 1, "summary_rows": 2500, "biomass_checks": 150000, "rows_dead_crop": 50,
                 "rows_cap_binding": 100, "rows_net_irrigation": 200, "rows_harvest_date": 100,
                 "d_ratio_below_one": 5000},
}


def cases(tier, seed):
    n = base.n_cases(320, 3200, tier)
    names = common.crop_names()
    out = []
    for i in range(n):
        rng = gen.rng_for(seed, ID, i)
        cls = i % 6
        # every third window ends inside a growing season (a season that did not reach harvest
        # has no summary row) or on a planting anniversary
        kw = dict(crops=[names[i % len(names)]], seasons=(1, 3), p_gw=0.15,
                  end_shape=("after", "after", "mid", "after", "anniv", "after", "mid")[i % 7],
                  harvest_early=0.15)
        if cls == 1:
            kw.update(methods=(4,), dry=True, off_season=False, seasons=(2, 3))
        elif cls == 2:   # binding seasonal cap
            kw.update(methods=(1, 2, 5), regimes=["arid", "hot", "warm"], p_file=0.1)
        elif cls == 3:   # crops dying
            kw.update(methods=(0,), dry=True, regimes=["arid", "hot"], p_file=0.0)
        elif cls == 4:
            kw.update(off_season=True, harvest_early=0.5)
        sp = gen.config(rng, **kw)
        if cls == 2:
            sp["irr"]["kw"]["MaxIrrSeason"] = float(gen.pick(rng, [50, 120, 200]))
        if cls == 3:
            sp["weather"].setdefault("params", {}).update(pwet=0.0, pstorm=0.0)
        if i % 5 == 2:
            gen.low_et0(rng, sp)      # days with a reference ET below 0.1 mm
        out.append({"spec": sp})
    return out


def monitor(spec, res, acc, complete=True):
    tr = res.trace
    cov = acc.cov
    wl = base.weather_lookup(res.kw)
    method = base.S.irr_method(spec)
    prev = None
    events = []          # (season, step record) harvest events
    flagged = set()
    irr_sum = {}
    n_tr = 0
    for s in tr.steps:
        t, g, f, sc = s["t"], s["growth"], s["flux"], s["sc"]
        if s["hf"] and sc >= 0 and sc not in flagged:
            flagged.add(sc)
            events.append((sc, s))
            # a harvest has a reason: the crop matured or died, or the next day is the season's
            # latest harvest date (whose dates C07 checks) - the end of the window is none
            hd_ = tr.init.get("harvest") or []
            by_date = sc < len(hd_) and (s["date"] + dt.timedelta(days=1)).date() == hd_[sc].date()
            cov["harvest_reason_checks"] += 1
            if not (s["mature"] or s["dead"] or by_date):
                acc.add("summary-rows", f"season {sc} is recorded as harvested at step {t} ({s['date'].date()}) although the crop "
                        f"neither matured nor died and the latest harvest date {hd_[sc].date() if sc < len(hd_) else None} is not reached",
                        dict(t=t, season=sc))
        if not s["gs"]:
            prev = None
            continue
        cr = tr.season_crop.get(sc)
        if cr is None:
            continue
        irr_sum[sc] = irr_sum.get(sc, 0.0) + float(f[FX["IrrDay"]])
        b = g[GX["biomass"]]
        cont = prev is not None and prev["sc"] == sc and s["dap"] == prev["dap"] + 1
        b0 = 0.0 if s["dap"] == 1 else (prev["growth"][GX["biomass"]] if cont else None)
        trr = f[FX["Tr"]]
        et0 = float(wl[s["date"].date()][3])
        if b0 is not None and np.isfinite(b):
            db = b - b0
            cov["biomass_checks"] += 1
            if trr > 1e-9:
                n_tr += 1
                denom = float(cr["WP"]) * float(cr["fCO2"]) * trr
                r = db * et0 / denom
                eps = 1e-9 + 1e-12 * (abs(b) / max(abs(db), 1e-300))
                lo = float(cr["WPy"]) / 100.0
                if not (min(lo, 1.0) - eps <= r <= 1 + eps):
                    acc.add("biomass-gain", f"step {t}: biomass gain {db!r} is {r!r} x WP*fCO2*Tr/ET0 "
                            f"(allowed [{lo}, 1])",
                            dict(t=t, dB=float(db), Tr=float(trr), ET0=et0, WP=cr["WP"], fCO2=float(cr["fCO2"]),
                                 WPy=cr["WPy"], ratio=float(r)))
                if r < 1 - 1e-6:
                    cov["d_ratio_below_one"] += 1
            elif trr == 0 and db != 0:
                acc.add("biomass-without-transpiration", f"step {t}: Tr=0 but biomass changed by {db!r}",
                        dict(t=t, dB=float(db)))
        bio = s.get("bio")
        if bio is not None:
            if bio["Tr"] != trr or bio["et0"] != et0:
                acc.add("biomass-inputs", f"step {t}: biomass accumulation was called with Tr={bio['Tr']!r}, "
                        f"ET0={bio['et0']!r}; the day's Tr is {trr!r}, ET0 {et0!r}", dict(t=t))
        # yield identities
        dy, fy, yp = g[GX["DryYield"]], g[GX["FreshYield"]], g[GX["YieldPot"]]
        want = (b / 100.0) * g[GX["harvest_index_adj"]]
        if not abs(dy - want) <= 1e-12 * max(1.0, abs(want)):
            acc.add("dry-yield", f"step {t}: DryYield {dy!r} != biomass/100*HIadj {want!r}", dict(t=t))
        wantp = (g[GX["biomass_ns"]] / 100.0) * g[GX["harvest_index"]]
        if not abs(yp - wantp) <= 1e-12 * max(1.0, abs(wantp)):
            acc.add("potential-yield", f"step {t}: YieldPot {yp!r} != biomass_ns/100*HI {wantp!r}", dict(t=t))
        ywc = cr.get("YldWC")
        if ywc:
            wantf = dy / (float(ywc) / 100.0)
            if not abs(fy - wantf) <= 1e-12 * max(1.0, abs(wantf)):
                acc.add("fresh-yield", f"step {t}: FreshYield {fy!r} != DryYield/(YldWC/100) {wantf!r}", dict(t=t))
        else:
            if not (np.isfinite(fy)):
                acc.add("fresh-yield", f"step {t}: FreshYield {fy!r} (crop has no dry-matter fraction)",
                        dict(t=t), dict(non_finite=True))
        prev = s
    # ---- summary -----------------------------------------------------------------------
    sm = res.summary
    if sm is None or not complete:
        return False
    span0 = tr.init["span0"]
    rows = list(sm.index)
    if rows != [e[0] for e in events]:
        acc.add("summary-rows", f"summary has rows {rows} but harvest events occurred for seasons "
                f"{[e[0] for e in events]}", dict(rows=[int(x) for x in rows],
                                                   events=[e[0] for e in events]))
    for k, s in events:
        if k not in sm.index:
            continue
        row = sm.loc[k]
        cov["summary_rows"] += 1
        g = s["growth"]
        t = s["t"]
        if int(row["Season"]) != k:
            acc.add("summary-season", f"summary row {k} says season {row['Season']!r}", dict(k=k))
        if int(row["Harvest Date (Step)"]) != t:
            acc.add("summary-step", f"season {k}: summary harvest step {row['Harvest Date (Step)']!r}, "
                    f"harvest flag was raised at step {t}", dict(k=k, t=t))
        want_date = span0 + pd.Timedelta(days=t + 1)
        if pd.Timestamp(row["Harvest Date (YYYY/MM/DD)"]) != want_date:
            acc.add("summary-date", f"season {k}: summary harvest date {row['Harvest Date (YYYY/MM/DD)']!r}, "
                    f"expected the date following step {t}: {want_date!r}", dict(k=k, t=t))
        for col, gc in (("Dry yield (tonne/ha)", "DryYield"), ("Fresh yield (tonne/ha)", "FreshYield"),
                        ("Yield potential (tonne/ha)", "YieldPot")):
            a, b_ = float(row[col]), float(g[GX[gc]])
            if not (a == b_ or (np.isnan(a) and np.isnan(b_))):
                acc.add("summary-yield", f"season {k}: summary {col} {a!r} != daily {gc} of step {t} {b_!r}",
                        dict(k=k, t=t, column=col))
        tot = irr_sum.get(k, 0.0)
        got = float(row["Seasonal irrigation (mm)"])
        if not abs(got - tot) <= 1e-9 * max(1.0, abs(tot)):
            late = [x["t"] for x in tr.steps if x["sc"] == k and x["gs"] and x["t"] > t]
            acc.add("summary-irrigation", f"season {k}: summary seasonal irrigation {got!r} != sum of the "
                    f"daily column over the season's days {tot!r}",
                    dict(k=k, summary=got, daily_sum=tot, in_season_steps_after_harvest=late[:5]),
                    dict(in_season_day_after_harvest=bool(late)))
        if s["dead"]:
            cov["rows_dead_crop"] += 1
        elif not s["mature"]:
            cov["rows_harvest_date"] += 1
        if method == 4:
            cov["rows_net_irrigation"] += 1
        cap = (spec.get("irr") or {}).get("kw", {}).get("MaxIrrSeason")
        if cap is not None and method in (1, 2, 3, 5) and tot >= cap - 1e-9 and cap > 0:
            cov["rows_cap_binding"] += 1
    return len(events) >= 1 and n_tr >= 30


def run_case(case):
    spec = case["spec"]
    res = sim.run(spec, opts=dict(ledger=True, irr=False, biomass=True))
    acc = base.Acc(spec)
    nt = monitor(spec, res, acc, complete=(res.status == "ok")) if res.trace.steps else False
    return base.finish(spec, res, acc, nt, instruments=("step", "biomass_accumulation"),
                       sample_extra={"summary_rows": acc.cov.get("summary_rows", 0)})
