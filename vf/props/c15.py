"""C15 Weather is bound by date and by column name - binding monitor + differential monitor
over transformations of the weather table that must not matter."""
import itertools

import numpy as np
import pandas as pd

from .. import common, gen, sim, spec as S
from . import base

ID = "C15"
TECHNIQUE = "runtime monitoring: per-step binding check of the weather values the model stored against the user's record of that date + differential oracle over transformed weather tables"
ANCHORS = ["core.py", "initialize/read_weather_inputs.py", "timestep/run_single_timestep.py",
           "timestep/reset_initial_conditions.py", "initialize/compute_crop_calendar.py"]
RULE = ("base configuration run once (binding of the four weather values checked on every executed "
        "day), then re-run with the weather table transformed: permutations of the five required "
        "columns (all 120 in the thorough tier, 12 sampled per base in quick), 1-3 unrelated columns "
        "(numeric, string, datetime) before/between/after, index replaced (reversed integers, strings, "
        "DatetimeIndex, non-unique), extra leading/trailing rows, and combinations; non-trivial = >= 3 "
        "transformed runs compared with a base of >= 30 executed days; distinct = spec digest")
ASSUMPTIONS = [
    "digest = SHA-256 of the three daily tables and the summary; compared within one process",
    "the user's record of a day is looked up by the Date column of the frame handed to the model",
]
FLOORS = {
    "quick": {"transformed_runs": 300, "binding_checks": 6000, "t_permutation": 150, "t_extra_columns": 40,
              "t_index": 40, "t_extra_rows": 30, "t_combination": 30},
    "thorough": {"transformed_runs": 5000, "binding_checks": 30000, "t_permutation": 3000,
                 "t_extra_columns": 500, "t_index": 500, "t_extra_rows": 300, "t_combination": 500,
                 "all_120_permutations_bases": 20},
}
CASE_TIMEOUT = {"quick": 400, "thorough": 1500}
COLS = ["MinTemp", "MaxTemp", "Precipitation", "ReferenceET", "Date"]
PERMS = list(itertools.permutations(COLS))


def cases(tier, seed):
    n = base.n_cases(32, 100, tier)
    out = []
    for i in range(n):
        rng = gen.rng_for(seed, ID, i)
        sp = gen.config(rng, seasons=(1, 2), p_gw=0.15, p_custom=0.15, end_shape="after",
                        crops=(None if i % 3 else [c for c in gen.usable_crops() if c in common.gdd_crops()]))
        sp["pad_before"] = 3
        sp["pad_after"] = 3
        if i % 8 == 5 and common.crop_catalogue()[sp["crop"]["name"]]["CalendarType"] == 1:
            sp["crop"]["kw"]["SwitchGDD"] = 1      # the conversion works on a copy of the weather table
        if i % 4 == 2:
            gen.low_et0(rng, sp)
        if i % 2:
            gen.et0_spike(rng, sp)     # a value far outside the spread of its column
        out.append({"spec": sp, "seed": int(rng.integers(0, 2 ** 31 - 1)),
                    "all_perms": tier == "thorough" and i % 4 == 0})
    return out


def add_columns(df, rng, where, force=()):
    df = df.copy()
    n = len(df)
    extras = {
        "Humidity": np.round(rng.uniform(10, 100, n), 1),
        "Station": np.array(["st-%d" % (i % 7) for i in range(n)], dtype=object),
        "Logged": pd.date_range("1970-01-01", periods=n, freq="h"),
        "Wind": np.round(rng.uniform(0, 15, n), 2),
        # unrelated columns whose names merely resemble the required ones
        "ReferenceET_method": np.full(n, 2.0),
        "Precipitation_QC": np.array([i % 3 for i in range(n)], dtype=float),
        "MinTemp_raw": np.round(rng.uniform(-40, 40, n), 1),
        "MaxTemperatureF": np.round(rng.uniform(30, 110, n), 1),
        "Date_logged": pd.date_range("2031-01-01", periods=n, freq="D"),
        "date": np.array(["n/a"] * n, dtype=object),
        # names a model might well use for columns of its own
        "season": np.array(["kharif" if (i // 180) % 2 else "rabi" for i in range(n)], dtype=object),
        "gdd": np.round(rng.uniform(0, 30, n), 1),
        "index": np.arange(n, dtype=float)[::-1].copy(),
        # labels that are not strings (a concatenated unnamed Series, a year, a tuple)
        0: np.round(rng.uniform(0, 1, n), 3),
        1990: np.round(rng.uniform(0, 40, n), 1),
        ("obs", "qc"): np.array([i % 2 for i in range(n)], dtype=float),
    }
    # unrelated columns may well be incomplete: missing values on days inside the window
    holes = rng.choice(n, size=min(n, 6), replace=False)
    extras["Humidity"][holes[:3]] = np.nan
    extras["Station"][holes[2:5]] = None
    lg = extras["Logged"].to_series().reset_index(drop=True)
    lg.iloc[holes[3:]] = pd.NaT
    extras["Logged"] = lg.to_numpy()
    keys = list(extras)
    names = [keys[int(j)] for j in rng.choice(len(keys), size=int(rng.integers(1, 5)), replace=False)]
    names += [x for x in force if x not in names]
    cols = list(df.columns)
    for k, name in enumerate(names):
        pos = {"before": 0, "after": len(cols), "between": int(rng.integers(1, len(cols)))}[where]
        cols.insert(pos, name)
        df[name] = extras[name]
    return df[cols]


def reindex(df, rng, kind):
    df = df.copy()
    n = len(df)
    if kind == "reversed":
        df.index = np.arange(n)[::-1]
    elif kind == "strings":
        df.index = ["r%05d" % i for i in range(n)]
    elif kind == "unpadded":
        df.index = ["%d-%d-%d" % (d.year, d.month, d.day) for d in df["Date"]]   # lexicographic != chronological
    elif kind == "shuffled":
        df.index = rng.permutation(n)
    elif kind == "datetime":
        df.index = pd.DatetimeIndex(df["Date"]) + pd.Timedelta(days=1234)
    elif kind == "nonunique":
        df.index = np.arange(n) % 5
    elif kind == "offset":
        df.index = np.arange(n) + 100000
    elif kind == "date_named":
        # the dates as index *and* column, the index carrying the column's name
        df = df.set_index("Date", drop=False)
    elif kind == "multi":
        df.index = pd.MultiIndex.from_arrays([df["Date"].dt.year.to_numpy(), np.arange(n)], names=["Year", "row"])
    return df


def extra_rows(df, rng):
    """More leading and trailing rows (with hostile values) - dates stay contiguous."""
    a = int(rng.integers(1, 200))
    b = int(rng.integers(1, 200))
    d0, d1 = df["Date"].iloc[0], df["Date"].iloc[-1]
    lead = pd.DataFrame({"MinTemp": 50.0, "MaxTemp": 60.0, "Precipitation": 299.0, "ReferenceET": 19.0,
                         "Date": pd.date_range(d0 - pd.Timedelta(days=a), d0 - pd.Timedelta(days=1))})
    trail = pd.DataFrame({"MinTemp": -30.0, "MaxTemp": -20.0, "Precipitation": 0.0, "ReferenceET": 0.1,
                          "Date": pd.date_range(d1 + pd.Timedelta(days=1), d1 + pd.Timedelta(days=b))})
    return pd.concat([lead[COLS], df[COLS], trail[COLS]], ignore_index=True)


def dup_rows(df, rng):
    """Two station files joined with an overlap that lies outside the window: some dates occur
    twice (with different values)."""
    out = extra_rows(df, rng)
    lead = out[out["Date"] < df["Date"].iloc[0]].copy()
    trail = out[out["Date"] > df["Date"].iloc[-1]].copy()
    lead2, trail2 = lead.copy(), trail.copy()
    lead2["Precipitation"] = 1.5
    trail2["MaxTemp"] = -19.0
    return pd.concat([lead[COLS], lead2[COLS], df[COLS], trail[COLS], trail2[COLS]], ignore_index=True)


def nan_rows(df, rng):
    """Leading rows of a station that did not record everything yet, trailing rows of days that
    have not happened yet: values missing in the required columns, all outside the window."""
    out = extra_rows(df, rng)
    n0 = int((out["Date"] < df["Date"].iloc[0]).sum())
    n1 = int((out["Date"] > df["Date"].iloc[-1]).sum())
    out = out.copy()
    for c in ("ReferenceET", "MinTemp", "MaxTemp", "Precipitation"):
        if n0:
            k = int(rng.integers(1, n0 + 1))
            out.loc[out.index[:k], c] = np.nan if rng.random() < 0.7 else out.loc[out.index[:k], c]
        if n1:
            k = int(rng.integers(1, n1 + 1))
            out.loc[out.index[len(out) - k:], c] = np.nan
    return out


def gap_rows(df, rng):
    """Leading and trailing fragments that are NOT contiguous with the window (joined files with
    holes, an earlier year without its 29 February ...)."""
    d0, d1 = df["Date"].iloc[0], df["Date"].iloc[-1]
    a = int(rng.integers(20, 200))
    hole = int(rng.integers(1, 90))
    lead_dates = pd.date_range(d0 - pd.Timedelta(days=a + hole), d0 - pd.Timedelta(days=hole + 1))
    lead_dates = lead_dates[[i for i in range(len(lead_dates)) if i % 17 != 5]]      # and a few single-day holes
    lead = pd.DataFrame({"MinTemp": 45.0, "MaxTemp": 58.0, "Precipitation": 222.0, "ReferenceET": 17.0, "Date": lead_dates})
    trail_dates = pd.date_range(d1 + pd.Timedelta(days=hole + 1), d1 + pd.Timedelta(days=hole + a))
    trail = pd.DataFrame({"MinTemp": -25.0, "MaxTemp": -15.0, "Precipitation": 0.0, "ReferenceET": 0.1, "Date": trail_dates})
    return pd.concat([lead[COLS], df[COLS], trail[COLS]], ignore_index=True)


def run_case(case):
    spec = case["spec"]
    acc = base.Acc(spec, limit=10)
    cov = acc.cov
    rng = np.random.default_rng(case["seed"])
    kw = S.build(spec)
    w0 = kw["weather_df"]
    B = sim.run(spec, kw=kw, opts=dict(ledger=False, irr=False))
    if B.status != "ok":
        return base.finish(spec, B, acc, False, instruments=("step",))
    # ---- (1) binding ---------------------------------------------------------------------
    wl = base.weather_lookup({"weather_df": w0})
    for s in B.trace.steps:
        cov["binding_checks"] += 1
        rec = wl[s["date"].date()]       # MinTemp, MaxTemp, Precipitation, ReferenceET
        P, tmax, tmin, et0 = s["w_state"]
        if not (P == rec[2] and tmax == rec[1] and tmin == rec[0] and et0 == rec[3]):
            acc.add("weather-binding", f"step {s['t']} ({s['date'].date()}): the model used precipitation={P!r}, "
                    f"temp_max={tmax!r}, temp_min={tmin!r}, et0={et0!r}; the record of that date has "
                    f"Precipitation={rec[2]!r}, MaxTemp={rec[1]!r}, MinTemp={rec[0]!r}, ReferenceET={rec[3]!r}",
                    dict(t=s["t"]))
    # the thermal calendar of every season (days to maturity, to maximum canopy, to the start of
    # yield formation) is derived from the temperatures of the dates from that planting date on:
    # recompute it from the user's record, each variable from the column of its name
    for sc, cr in sorted(B.trace.season_crop.items()):
        if int(cr.get("CalendarType", 1)) != 2 or spec["crop"].get("kw", {}).get("SwitchGDD") or sc >= len(B.trace.init["planting"]):
            continue
        pl = B.trace.init["planting"][sc].date()
        e0 = S.d(spec["end"])
        days = [d_ for d_ in sorted(wl) if pl <= d_ <= e0]
        if len(days) < 2:
            continue
        rec = np.array([wl[d_] for d_ in days], dtype=float)         # MinTemp, MaxTemp, P, ET0
        from .c16 import ref_gdd
        cum = np.cumsum(ref_gdd(int(cr.get("GDDmethod", 3)), float(cr["Tupp"]), float(cr["Tbase"]), rec[:, 1], rec[:, 0]))
        for gname, cdname in (("Maturity", "MaturityCD"), ("MaxCanopy", "MaxCanopyCD"), ("HIstart", "HIstartCD")):
            thr = float(cr[gname])
            if not (cum[-1] > thr):
                continue
            want = int(np.argmax(cum > thr)) + 1
            cov["thermal_calendar_checks"] += 1
            if int(cr[cdname]) != want and abs(cum[want - 1] - thr) > 1e-9 and abs(cum[max(want - 2, 0)] - thr) > 1e-9:
                acc.add("calendar-binding", f"season {sc} (planted {pl}): {cdname} = {int(cr[cdname])}, but the degree days of the "
                        f"user's MinTemp / MaxTemp records from that date on pass {gname} = {thr} on day {want}",
                        dict(season=sc, name=cdname, model=int(cr[cdname]), expected=want))
                break
    d0 = sim.tables_digest(B)
    # ---- (2) transformations -----------------------------------------------------------------
    plans = []
    forced = ("season", "gdd") if spec["crop"].get("kw", {}).get("SwitchGDD") else ()
    perms = PERMS if case.get("all_perms") else [PERMS[int(i)] for i in rng.choice(len(PERMS), 12, replace=False)]
    for p in perms:
        plans.append(("permutation", f"columns ordered {list(p)}", lambda df, p=p: df[list(p)]))
    for where in ("before", "between", "after"):
        plans.append(("extra_columns", f"unrelated columns {where}", lambda df, where=where: add_columns(df, rng, where, force=forced)))
    for kind in ("reversed", "strings", "datetime", "nonunique", "offset", "unpadded", "shuffled", "date_named", "multi"):
        plans.append(("index", f"index replaced ({kind})", lambda df, kind=kind: reindex(df, rng, kind)))
    plans.append(("extra_rows", "extra leading and trailing rows", lambda df: extra_rows(df, rng)))
    plans.append(("extra_rows", "extra leading and trailing rows with holes outside the window", lambda df: gap_rows(df, rng)))
    plans.append(("extra_rows", "extra leading and trailing rows with missing values (outside the window)", lambda df: nan_rows(df, rng)))
    plans.append(("extra_rows", "extra leading and trailing rows whose dates occur twice (outside the window)", lambda df: dup_rows(df, rng)))
    for _ in range(3):
        p = PERMS[int(rng.integers(0, len(PERMS)))]
        kind = gen.pick(rng, ["reversed", "strings", "datetime", "offset", "unpadded", "shuffled"])
        where = gen.pick(rng, ["before", "between", "after"])
        plans.append(("combination", f"extra rows + columns {where} + order {list(p)} + index {kind}",
                      lambda df, p=p, kind=kind, where=where:
                      reindex(add_columns(extra_rows(df, rng)[list(p)], rng, where), rng, kind)))
    ncmp = 0
    for fam, label, fn in plans:
        kw2 = S.build(spec, weather_df=fn(w0.copy()))
        P = sim.run(spec, kw=kw2, opts=dict(ledger=False, irr=False))
        cov["executions"] += 1
        if P.status != "ok":
            st, note = base.run_status(P)
            acc.add("transformed-run-fails", f"{label}: the run does not complete: {note}",
                    dict(transformation=label, family=fam), dict(family=fam),
                    site=f"{P.exc[2][0]}.{P.exc[2][1]}")
            continue
        cov["transformed_runs"] += 1
        cov["t_" + fam] += 1
        ncmp += 1
        if sim.tables_digest(P) != d0:
            where = ""
            for name, a, b in zip(("water_flux", "water_storage", "crop_growth"), B.tables, P.tables):
                if a.shape != b.shape:
                    where = f"{name} shape {a.shape} vs {b.shape}"
                    break
                bad = np.argwhere(~((a == b) | (np.isnan(a) & np.isnan(b))))
                if len(bad):
                    where = f"{name}[{int(bad[0][0])},{int(bad[0][1])}] {a[tuple(bad[0])]!r} vs {b[tuple(bad[0])]!r}"
                    break
            acc.add("transformed-run-differs", f"{label}: results differ ({where or 'summary'})",
                    dict(transformation=label, family=fam, where=where), dict(family=fam))
    if case.get("all_perms"):
        cov["all_120_permutations_bases"] += 1
    return base.finish(spec, B, acc, ncmp >= 3 and len(B.trace.steps) >= 30, instruments=("step",),
                       sample_extra={"transformed_runs": ncmp})


def finalize(cases_, results, tier):
    full = sum(1 for c, r in zip(cases_, results) if c.get("all_perms") and r.get("status") == "held")
    return {"exhaustive_subspaces": f"all 120 column permutations for {full} base configurations" if full else
            "column permutations sampled (12 of 120 per base) in this tier"}
