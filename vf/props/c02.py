"""C02 Rain and irrigation are fully partitioned at the surface - row monitor."""
import numpy as np

from .. import gen, sim
from . import base
from .base import FX

ID = "C02"
ANCHORS = ["solution/rainfall_partition.py", "solution/infiltration.py", "solution/irrigation.py"]
RULE = ("random valid configurations with effective curve number <= 100, rain 0-300 mm/day, "
        "bunds (overtopping, removal, lowering), inhibited runoff, CN adjustment, AppEff 50-100, "
        "low-Ksat soils; non-trivial = >= 30 executed days of which >= 1 with runoff > 0; "
        "distinct = distinct spec digest")
ASSUMPTIONS = [
    "precipitation of a day is read from the user's weather frame by date, not from the model",
    "applied irrigation is IrrDay*AppEff/100 for strategies 1,2,3,5 and 0 for 0 and 4",
    "negative infiltration is accepted whenever the ponding at the start of the day exceeds the ponding capacity in force (bunds removed or lowered) - the lenient reading",
]
FLOORS = {
    "quick": {"days": 5000, "d_runoff": 300, "d_overtop": 20, "d_neg_infl": 3, "d_irrigated": 300,
              "d_pond": 100, "rp_calls": 5000, "d_quiet": 500},
    "thorough": {"days": 50000, "d_runoff": 3000, "d_overtop": 200, "d_neg_infl": 30,
                 "d_irrigated": 3000, "d_pond": 1000, "rp_calls": 50000, "d_quiet": 5000},
}


def cases(tier, seed):
    n = base.n_cases(300, 3000, tier)
    out = []
    for i in range(n):
        rng = gen.rng_for(seed, ID, i)
        cls = i % 5
        kw = dict(hostile=True, p_gw=0.1, p_bunds=0.3, p_custom=0.4, seasons=(1, 2),
                  methods=(0, 1, 2, 3, 5, 5, 4))
        if cls == 1:   # bunded paddies with storms: overtopping
            kw.update(soil_names=["Paddy", "Clay", "SiltClay", "SandyClay"], p_custom=0.2,
                      p_bunds=1.0, regimes=["monsoon", "humid"], p_file=0.0)
        elif cls == 2:  # bunds in season, none (or lower) in fallow, off-season simulated
            kw.update(off_season=True, p_bunds=1.0, p_ffm=1.0, regimes=["monsoon", "humid", "warm"],
                      p_file=0.1)
        elif cls == 3:  # infiltration-excess runoff on low-conductivity soil
            kw.update(low_ksat=True, p_custom=0.8, regimes=["monsoon", "humid"], p_file=0.0)
        elif cls == 4 and i % 10 == 4:  # water backing up to the surface: shallow table, uneven compartments, storms
            kw.update(p_gw=1.0, gw_depths=(0.3, 0.5, 0.8), p_custom=0.5, p_dz=1.0, soil_names=["ac_TunisLocal", "Clay", "Loam", "SiltClay"],
                      regimes=["monsoon", "humid"], p_file=0.0, p_bunds=0.0, off_season=True)
        if cls == 0 and i % 15 == 10:
            # the curve-number adjustment on in the season, off - with a percentage left in place -
            # in the simulated fallow period, on soils with a high curve number
            kw.update(off_season=True, soil_names=["Clay", "ClayLoam", "SandyClay", "Paddy", "SiltClay"], p_custom=0.0,
                      regimes=["monsoon", "humid"], p_file=0.0, p_bunds=0.0, pre=(30, 90))
        sp = gen.config(rng, **kw)
        if cls == 0 and i % 15 == 10:
            sp["fm"] = dict(sp.get("fm") or {}, curve_number_adj=True, curve_number_adj_pct=10.0, bunds=False)
            sp["ffm"] = {"curve_number_adj": False, "curve_number_adj_pct": 40.0}
        out.append({"spec": sp})
    return out


def monitor(spec, res, acc):
    tr = res.trace
    tr.user_spec = spec
    base.check_initial_pond(spec, tr, acc)
    cov = acc.cov
    wl = base.weather_lookup(res.kw)
    method = base.S.irr_method(spec)
    eff = float((spec.get("irr") or {}).get("kw", {}).get("AppEff", 100.0))
    E = 1e-9
    prev = None
    for s in tr.steps:
        t = s["t"]
        f = s["flux"]
        cov["days"] += 1
        day = s["date"].date()
        P = float(wl[day][2])
        irr = f[FX["IrrDay"]]
        A = irr * eff / 100.0 if method in (1, 2, 3, 5) else 0.0
        infl, ro = f[FX["Infl"]], f[FX["Runoff"]]
        pond0 = s["pond0"]
        m = base.mgmt_in_force(tr, s)
        cap = base.pond_capacity(m)
        if not abs(P + A - (infl + ro)) <= E * max(1.0, P + A):
            acc.add("partition", f"step {t} ({day}): rain {P!r} + applied irrigation {A!r} != "
                    f"infiltration {infl!r} + runoff {ro!r}",
                    dict(t=t, P=P, A=A, Infl=infl, Runoff=ro, pond0=pond0))
        if ro < -E:
            acc.add("runoff-negative", f"step {t}: runoff {ro!r}", dict(t=t, Runoff=ro))
        if ro > P + A + pond0 + E:
            acc.add("runoff-too-large", f"step {t}: runoff {ro!r} exceeds rain+irrigation+pond "
                    f"{P + A + pond0!r}", dict(t=t, Runoff=ro, P=P, A=A, pond0=pond0))
        if infl < -E:      # -9e-16 is rounding of (incoming - runoff) when everything runs off
            cov["d_neg_infl"] += 1
            # released water is legitimate only on the first day the capacity fell below the pond
            stale = (prev is not None and prev["t"] == t - 1
                     and pond0 > base.pond_capacity(base.mgmt_in_force(tr, prev)) + E)
            if stale:
                acc.add("negative-infiltration-late",
                        f"step {t}: infiltration {infl!r} releases {pond0!r} mm of ponded water, but that water already "
                        f"exceeded the ponding capacity in force on the previous day (it should have been released then)",
                        dict(t=t, Infl=infl, pond0=pond0, cap=cap))
            if not pond0 > cap:
                acc.add("negative-infiltration",
                        f"step {t}: infiltration {infl!r} although ponding {pond0!r} does not exceed "
                        f"the ponding capacity {cap!r}", dict(t=t, Infl=infl, pond0=pond0, cap=cap))
            if infl < -pond0 - E:
                acc.add("negative-infiltration-too-large",
                        f"step {t}: infiltration {infl!r} below minus the ponded water {pond0!r}",
                        dict(t=t, Infl=infl, pond0=pond0))
        if P == 0 and A == 0 and pond0 == 0:
            cov["d_quiet"] += 1
            if infl != 0 or ro != 0:
                acc.add("quiet-day", f"step {t}: no rain, irrigation or ponding but Infl={infl!r} "
                        f"Runoff={ro!r}", dict(t=t, Infl=infl, Runoff=ro))
        rp = s.get("rp")
        if rp is not None:
            cov["rp_calls"] += 1
            if rp["P"] != P:
                acc.add("rain-binding", f"step {t}: rainfall_partition received {rp['P']!r}, the "
                        f"weather record of {day} says {P!r}", dict(t=t))
            if rp["runoff"] < 0 or rp["runoff"] > rp["P"] + E or abs(rp["infl"] - (rp["P"] - rp["runoff"])) > E:
                acc.add("partition-call", f"step {t}: rainfall_partition({rp['P']!r}) returned runoff "
                        f"{rp['runoff']!r}, infiltration {rp['infl']!r}", dict(t=t, **rp))
        if ro > 0:
            cov["d_runoff"] += 1
        if pond0 > 0 or s["pond1"] > 0:
            cov["d_pond"] += 1
        if cap > 0 and ro > 0:
            cov["d_overtop"] += 1   # with bunds in force runoff can only come from overtopping
        if A > 0:
            cov["d_irrigated"] += 1
        prev = s
    return len(tr.steps) >= 30 and cov.get("d_runoff", 0) >= 1


def run_case(case):
    spec = case["spec"]
    res = sim.run(spec, opts=dict(ledger=True, irr=False))
    acc = base.Acc(spec)
    nt = monitor(spec, res, acc) if res.trace.steps else False
    return base.finish(spec, res, acc, nt, instruments=("step", "rainfall_partition"),
                       sample_extra={"runoff_days": acc.cov.get("d_runoff", 0),
                                     "overtopping_days": acc.cov.get("d_overtop", 0)})
