"""C11 Inputs are not consumed by a run - differential monitor over re-runs and re-builds on
the same user objects, with a before/after snapshot of those objects as witness."""
import numpy as np
import pandas as pd

from .. import common, gen, instrument as I, sim, spec as S
from . import base

ID = "C11"
TECHNIQUE = "runtime monitoring: differential oracle (re-run / re-build on the same user objects must reproduce the first run's output digest and not raise); semantic snapshots of the user objects as witness"
ANCHORS = ["core.py", "initialize/read_irrigation_management.py", "initialize/read_model_parameters.py",
           "initialize/compute_crop_calendar.py", "initialize/compute_variables.py",
           "initialize/read_weather_inputs.py", "entities/soil.py"]
RULE = ("one set of user objects per case: run, run the same model again (re-initialises), build a "
        "second and third model from the same objects and run them; emphasis on dated schedules, "
        "threshold lists, deep-rooted crops on shallow profiles (user profile deepened in place), "
        "thermal crops, unset harvest date (written back), CO2 constant/series/default, water tables, "
        "weather frames with extra rows; non-trivial = first run completed and >= 2 later generations "
        "were executed; distinct = spec digest")
ASSUMPTIONS = [
    "results are compared by SHA-256 digest of the three daily tables and the summary",
    "a documented input rejection of the first run makes the case 'rejected' (nothing to compare)",
]
FLOORS = {
    "quick": {"object_sets": 70, "generations": 250, "sets_schedule": 8, "sets_deepened": 10,
              "sets_thermal": 15, "sets_water_table": 10, "sets_padded_weather": 15},
    "thorough": {"object_sets": 700, "generations": 2500, "sets_schedule": 80, "sets_deepened": 100,
                 "sets_thermal": 150, "sets_water_table": 100, "sets_padded_weather": 150},
}


def cases(tier, seed):
    n = base.n_cases(96, 960, tier)
    deep = ["Maize", "MaizeGDD", "Cotton", "Sunflower", "SoybeanGDD", "AlfalfaGDD", "Sorghum"]
    out = []
    for i in range(n):
        rng = gen.rng_for(seed, ID, i)
        cls = i % 6
        kw = dict(seasons=(1, 2), p_gw=0.25, p_custom=0.25, p_co2=0.7, harvest_early=0.2)
        if cls == 0:
            kw.update(methods=(3,))
        elif cls == 1:
            kw.update(crops=deep, p_custom=0.0)
        elif cls == 2:
            kw.update(crops=[c for c in gen.usable_crops() if c in common.gdd_crops()])
        elif cls == 3:
            kw.update(methods=(1,), p_gw=0.8)
        elif cls == 4:   # deepened profile under a table that reaches it
            kw.update(crops=deep, p_custom=0.0, p_gw=1.0, gw_depths=(0.8, 1.2, 1.6, 2.0, 2.5))
        elif cls == 5:   # run starts in the fallow period; crop parameters that differ from the fallow filler's
            kw.update(pre=(5, 40, 90), crops=["Barley", "BarleyGDD", "Quinoa", "Tef", "AlfalfaGDD", "PaddyRice",
                                              "Wheat", "Maize", "Tomato"], wet=True)
        switch = (i % 12 in (7, 2))
        if switch:
            kw.update(crops=[c for c in gen.usable_crops() if c in common.cd_crops() and gen.crop_len_days(c) < 200],
                      end_shape="after", harvest_early=(0.0 if i % 12 == 7 else 1.0))
        sp = gen.config(rng, **kw)
        if switch:
            # a calendar-day crop the model converts to thermal time: the conversion must not be
            # left behind in the user's Crop object
            sp["crop"]["kw"]["SwitchGDD"] = 1
        if cls == 5 and sp["crop"]["name"] in ("Wheat", "Maize", "Tomato"):
            sp["crop"]["kw"]["Zmin"] = float(gen.pick(rng, [0.2, 0.4]))
        if sp["irr"]["method"] == 1 and i % 2 == 0:
            sp["irr"]["kw"]["SMT_as_array"] = True
        if not sp.get("co2") and i % 3 == 0:
            sp["co2"] = {"default": True}           # an explicit CO2() object shared by all generations
        sp["pad_before"] = int(gen.pick(rng, [0, 0, 3, 200]))
        sp["pad_after"] = int(gen.pick(rng, [0, 0, 3, 200]))
        if sp["weather"]["kind"] == "file":
            sp["pad_before"] = min(sp["pad_before"], 3)
            sp["pad_after"] = min(sp["pad_after"], 3)
        c = {"spec": sp}
        if i % 4 == 3:
            c["cross"] = True
        if i % 4 == 1 and sp["weather"]["kind"] == "synth":
            c["later"] = int(gen.pick(rng, [1, 2]))
            sp["pad_after"] = 366 * c["later"] + 5
            if i % 8 == 1:
                sp["co2"] = {"constant_auto": True}      # "constant at the level of the first simulated year"
        out.append(c)
    return out


def snap(o, depth=0):
    """Semantic snapshot of a user object (I7)."""
    if isinstance(o, pd.DataFrame):
        return ("DataFrame", list(o.columns), I.dig(o))
    if isinstance(o, (pd.Series, pd.Index)):
        return ("Series", I.dig(o))
    if isinstance(o, np.ndarray):
        return ("ndarray", str(o.dtype), o.shape, I.dig(o))
    if isinstance(o, (list, tuple)):
        return (type(o).__name__, [snap(x, depth + 1) for x in o])
    if isinstance(o, dict):
        return {k: snap(v, depth + 1) for k, v in o.items()}
    if hasattr(o, "__dict__") and depth < 3:
        return {k: snap(v, depth + 1) for k, v in vars(o).items()}
    return repr(o)


def diff(a, b, path=""):
    out = []
    if isinstance(a, dict) and isinstance(b, dict):
        for k in sorted(set(a) | set(b), key=str):
            if k not in a:
                out.append(f"{path}.{k} (added)")
            elif k not in b:
                out.append(f"{path}.{k} (removed)")
            else:
                out += diff(a[k], b[k], f"{path}.{k}")
    elif a != b:
        ta = a[0] if isinstance(a, tuple) else type(a).__name__
        tb = b[0] if isinstance(b, tuple) else type(b).__name__
        out.append(f"{path} ({ta} -> {tb})" if ta != tb else path)
    return out


USER_KEYS = ["weather_df", "soil", "crop", "initial_water_content", "irrigation_management",
             "field_management", "fallow_field_management", "groundwater", "co2_concentration"]


def run_case(case):
    spec = case["spec"]
    acc = base.Acc(spec)
    cov = acc.cov
    common.use_repo()
    kw = S.build(spec)
    fresh_digest = None
    if case.get("cross"):
        # the objects have been used before, in a model with another groundwater setting: they
        # must still mean what fresh ones mean (reference: the same configuration, fresh objects)
        from aquacrop import AquaCropModel, GroundWater
        ref0 = sim.run(spec, opts=dict(ledger=False, irr=False))
        if ref0.status == "ok":
            fresh_digest = sim.tables_digest(ref0)
            kw_other = dict(kw)
            if "groundwater" in kw_other:
                kw_other.pop("groundwater")
            else:
                kw_other["groundwater"] = GroundWater(water_table="Y", method="Constant", dates=[spec["start"]], values=[1.2])
            try:
                with np.errstate(all="ignore"):
                    AquaCropModel(**kw_other).run_model(num_steps=40)
                cov["objects_used_before_in_another_setting"] += 1
            except Exception:  # noqa: BLE001
                fresh_digest = None
    before = {k: snap(kw[k]) for k in USER_KEYS if k in kw}
    first = sim.run(spec, kw=kw, opts=dict(ledger=False, irr=False))
    if fresh_digest is not None and first.status == "ok" and sim.tables_digest(first) != fresh_digest:
        acc.add("used-objects-differ-from-fresh", "a model built from objects that were used before by a model with another "
                "groundwater setting differs from the same model built from fresh objects", dict(), dict(co2_option="other"))
    if first.status != "ok":
        return base.finish(spec, first, acc, False, instruments=("step",))
    d0 = sim.tables_digest(first)
    cov["object_sets"] += 1
    feats_cov = acc.spec_feats
    if S.irr_method(spec) == 3:
        cov["sets_schedule"] += 1
    if feats_cov.get("calendar_type") == 2:
        cov["sets_thermal"] += 1
    if spec.get("gw"):
        cov["sets_water_table"] += 1
    if spec.get("pad_before") or spec.get("pad_after"):
        cov["sets_padded_weather"] += 1
    dz_spec = spec["soil"].get("kw", {}).get("dz")
    dz0 = dz_spec if dz_spec is not None else ([0.1] * 12 if spec["soil"]["type"] != "ac_TunisLocal"
                                                else [0.1] * 6 + [0.15] * 5 + [0.2])
    if abs(float(np.sum(first.trace.dz0)) - round(sum(dz0), 2)) > 1e-9:
        cov["sets_deepened"] += 1
    # the weather table is the one object whose *content* is its meaning: it must be the table
    # the user handed over (same rows, same values) after a run
    after_first = snap(kw["weather_df"])
    cov["weather_table_unchanged_checks"] += 1
    if after_first != before["weather_df"]:
        acc.add("user-weather-changed", "the user's weather table is not the same after the first run "
                f"({before['weather_df'][1:2]} -> {after_first[1:2]}; rows/values differ)", dict())
    gens = 0
    model = first.model
    plan = [("re-run of the same model object", "rerun"), ("second re-run of the same model object", "rerun"),
            ("third re-run of the same model object", "rerun"),
            ("second model built from the same objects", "rebuild"),
            ("third model built from the same objects", "rebuild"), ("re-run of the third model", "rerun")]
    for label, how in plan:
        cov["executions"] += 1
        try:
            if how == "rebuild":
                from aquacrop import AquaCropModel

                model = AquaCropModel(**kw)
            with np.errstate(all="ignore"):
                model.run_model(till_termination=True)
            r = sim.RunResult()
            out = model._outputs
            r.tables = tuple(np.asarray(getattr(x, "values", x), dtype=float)
                             for x in (out.water_flux, out.water_storage, out.crop_growth))
            r.summary = out.final_stats
            d = sim.tables_digest(r)
        except Exception as ex:  # noqa: BLE001
            info = sim.exc_info(ex)
            after = {k: snap(kw[k]) for k in USER_KEYS if k in kw}
            changed = diff(before, after)
            acc.add("later-run-raises", f"{label} raised {info[0]}: {info[1][:100]} (the first run completed); "
                    f"user-object fields changed since before the first run: {changed[:8]}",
                    dict(generation=label, exception=info[0], message=info[1][:200], changed=changed[:20],
                         traceback=info[3][-700:]),
                    dict(exception=info[0], schedule_strategy=(S.irr_method(spec) == 3)),
                    site=f"{info[2][0]}.{info[2][1]}")
            break
        gens += 1
        cov["generations"] += 1
        if d != d0:
            after = {k: snap(kw[k]) for k in USER_KEYS if k in kw}
            changed = diff(before, after)
            # locate the first differing cell
            where = ""
            for name, a, b in zip(("water_flux", "water_storage", "crop_growth"), first.tables, r.tables):
                if a.shape != b.shape:
                    where = f"{name} shape {a.shape} vs {b.shape}"
                    break
                bad = np.argwhere(~((a == b) | (np.isnan(a) & np.isnan(b))))
                if len(bad):
                    where = f"{name}[{int(bad[0][0])},{int(bad[0][1])}] {a[tuple(bad[0])]!r} vs {b[tuple(bad[0])]!r}"
                    break
            acc.add("later-run-differs", f"{label} gives different results ({where or 'summary'}); user-object fields "
                    f"changed since before the first run: {changed[:8]}",
                    dict(generation=label, where=where, changed=changed[:20]))
            break
    # ---- the same objects handed to a model over a later window ------------------------------
    # (one weather table, one soil, one crop ... used for several periods): the objects must mean
    # there what they meant before the first run, i.e. give what fresh objects give for that window
    if case.get("later") and not acc.v:
        import copy
        import datetime as dt
        from aquacrop import AquaCropModel

        sp2 = copy.deepcopy(spec)
        k = int(case["later"])
        sp2["start"] = S.ds(gen.add_years(S.d(spec["start"]), k))
        sp2["end"] = S.ds(gen.add_years(S.d(spec["end"]), k))
        ref = sim.run(sp2, opts=dict(ledger=False, irr=False))
        cov["executions"] += 2
        if ref.status == "ok":
            kw2 = dict(kw)
            kw2["sim_start_time"], kw2["sim_end_time"] = ref.kw["sim_start_time"], ref.kw["sim_end_time"]
            try:
                m2 = AquaCropModel(**kw2)
                with np.errstate(all="ignore"):
                    m2.run_model(till_termination=True)
                r = sim.RunResult()
                out = m2._outputs
                r.tables = tuple(np.asarray(getattr(x, "values", x), dtype=float)
                                 for x in (out.water_flux, out.water_storage, out.crop_growth))
                r.summary = out.final_stats
                cov["later_window_models"] += 1
                if sim.tables_digest(r) != sim.tables_digest(ref):
                    where = ""
                    for name, a, b in zip(("water_flux", "water_storage", "crop_growth"), ref.tables, r.tables):
                        if a.shape != b.shape:
                            where = f"{name} shape {a.shape} vs {b.shape}"
                            break
                        bad = np.argwhere(~((a == b) | (np.isnan(a) & np.isnan(b))))
                        if len(bad):
                            where = f"{name}[{int(bad[0][0])},{int(bad[0][1])}] {a[tuple(bad[0])]!r} (fresh objects) vs {b[tuple(bad[0])]!r}"
                            break
                    after = {kk: snap(kw[kk]) for kk in USER_KEYS if kk in kw}
                    acc.add("used-objects-differ-from-fresh", f"a model over the window {sp2['start']}..{sp2['end']} built from the objects "
                            f"of the first run differs from the same model built from fresh objects ({where or 'summary'}); "
                            f"user-object fields changed by the first run: {diff(before, after)[:8]}",
                            dict(where=where, changed=diff(before, after)[:20]),
                            dict(co2_option=("constant_auto" if (spec.get("co2") or {}).get("constant_auto") else "other")))
            except Exception as ex:  # noqa: BLE001
                info = sim.exc_info(ex)
                acc.add("later-run-raises", f"a model over the window {sp2['start']}..{sp2['end']} built from the objects of the "
                        f"first run raised {info[0]}: {info[1][:100]}", dict(exception=info[0], traceback=info[3][-700:]),
                        dict(exception=info[0]), site=f"{info[2][0]}.{info[2][1]}")
    return base.finish(spec, first, acc, gens >= 2, instruments=("step",),
                       sample_extra={"generations": gens})
