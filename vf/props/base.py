"""Helpers shared by the per-property modules."""
import collections
import datetime as dt
import os

import numpy as np

from .. import common, findings as F, gen, sim, spec as S

FX, GX = common.FX, common.GX


def scale():
    return float(os.environ.get("VERIF_SCALE", "1"))


def n_cases(quick, thorough, tier):
    return max(4, int((quick if tier == "quick" else thorough) * scale()))


class Acc:
    """Violations + coverage counters of one case."""

    def __init__(self, spec=None, limit=12):
        self.v = []
        self.cov = collections.Counter()
        self.limit = limit
        self.total = 0
        self.spec_feats = spec_features(spec) if spec is not None else {}

    def add(self, clause, msg, witness=None, features=None, site=None):
        self.total += 1
        self.cov["viol:" + clause] += 1
        feats = dict(self.spec_feats)
        feats.update(features or {})
        # keep at most `limit` witnesses, but at least one per distinct clause
        if len(self.v) < self.limit or not any(x["clause"] == clause for x in self.v):
            self.v.append(F.violation(clause, msg, witness, feats, site))


D8_CROPS = ("Cassava", "PotatoLocalGDD", "localpaddy", "MaizeChampionGDD")


def spec_features(spec):
    """Mechanism-level features of a configuration, used by known-finding predicates."""
    if spec is None:
        return {}
    cat = common.crop_catalogue()
    c = spec["crop"]
    cp = cat.get(c["name"], {})
    yld = c.get("kw", {}).get("YldWC", cp.get("YldWC"))
    soil = spec["soil"]
    pen = False
    if soil["type"] == "custom":
        pen = any(L.get("pen", 100) < 100 for L in soil["layers"])
    return {
        # D8 is the finding "these four built-in crops ship without a dry-matter fraction"; any
        # other crop that turns up without one is a different defect and must not be absorbed
        "crop_has_no_YldWC": (not bool(yld)) and c["name"] in D8_CROPS,
        "crop_without_YldWC_not_in_D8": (not bool(yld)) and c["name"] not in D8_CROPS,
        "calendar_type": int(c.get("kw", {}).get("CalendarType", cp.get("CalendarType", 0))),
        "restrictive_layer": pen,
        "off_season": bool(spec.get("off_season")),
        "irr_method": S.irr_method(spec),
        "water_table": spec.get("gw") is not None,
        "user_harvest_date": c.get("harvest") is not None,
    }


def weather_lookup(kw):
    """date -> (MinTemp, MaxTemp, Precipitation, ReferenceET) from the *user's* frame."""
    w = kw["weather_df"]
    dates = [x.date() for x in w["Date"]]
    arr = w[["MinTemp", "MaxTemp", "Precipitation", "ReferenceET"]].to_numpy(dtype=float)
    return {d: arr[i] for i, d in enumerate(dates)}


def mgmt_in_force(trace, step):
    """The field management in force on a day *as the user configured it* (bund height in mm
    like the model's own struct): in-season -> field_management, else fallow_field_management.
    The model's copies are not used: a defect may sit exactly in how they were filled."""
    um = (trace.user_spec.get("fm") if step["gs"] else trace.user_spec.get("ffm")) if getattr(trace, "user_spec", None) else None
    if um is None and getattr(trace, "user_spec", None) is None:
        return trace.init["fm"] if step["gs"] else trace.init["ffm"]
    um = um or {}
    return dict(bunds=bool(um.get("bunds", False)), z_bund=float(um.get("z_bund", 0.0)) * 1000.0,
                bund_water=float(um.get("bund_water", 0.0)), mulches=bool(um.get("mulches", False)),
                mulch_pct=float(um.get("mulch_pct", 50.0)), f_mulch=float(um.get("f_mulch", 0.5)))


def pond_capacity(m):
    return float(m["z_bund"]) if (m["bunds"] and float(m["z_bund"]) > 0.001) else 0.0


def run_status(res):
    """Map a RunResult to (case status, note)."""
    if res.status == "ok":
        return "ok", None
    tname, msg, site, _ = res.exc
    sig = f"{tname} @ {site[0]}.{site[1]}: {msg[:60]}"
    if res.status == "rejected":
        return "rejected", sig
    if res.status == "error":
        return "errored", "unexpected exception " + sig
    return "inconclusive", f"{res.status}: {sig}"


def finish(spec, res, acc, nontrivial, sample_extra=None, instruments=(), rows_judged=True):
    """Build the case result from a run, its accumulator and the non-triviality verdict."""
    st, note = run_status(res)
    tr = res.trace
    mm = getattr(tr, "table_mismatch", 0)
    if mm and rows_judged:
        f = tr.table_mismatch_first
        cols = {"flux": common.FLUX_COLS, "growth": common.GROWTH_COLS}.get(f["table"])
        col = cols[f["col"]] if cols and 0 <= f["col"] < len(cols) else f["col"]
        acc.add("reported-table-differs-from-step-output",
                f"{mm} rows of the daily tables returned to the user differ from what the time step wrote "
                f"({getattr(tr, 'ghost_rows', 0)} of them on days no step was executed for), first at "
                f"step {f['t']} column {col}: step wrote {f['step_value']!r}, table reports {f['reported']!r}",
                dict(f, column=col), dict(table=f["table"]))
    acc.cov["table_rows_reconciled"] += 3 * len(tr.steps) if hasattr(tr, "table_mismatch") else 0
    acc.cov["table_rows_unexecuted_checked"] += 3 * getattr(tr, "rows_unexecuted", 0)
    out = dict(violations=acc.v, cov=dict(acc.cov), n_violations=acc.total)
    out["cov"]["executions"] = out["cov"].get("executions", 0) + 1
    out["cov"]["steps"] = len(tr.steps)
    if tr.errors:
        st, note = "inconclusive", "instrument error: " + tr.errors[0]
    for name in instruments:
        if st == "ok" and tr.n.get(name, 0) == 0:
            st, note = "inconclusive", f"instrument '{name}' recorded no events"
    if acc.v:
        out["status"] = "violated"
    elif st == "ok":
        out["status"] = "held"
    elif st == "rejected":
        out["status"] = "rejected"
        out["cov"]["rejected"] = 1
    else:
        out["status"] = st
    out["note"] = note
    out["nontrivial"] = bool(nontrivial) and st == "ok"
    out["key"] = S.digest(spec)
    smp = S.summary_of(spec)
    smp["steps"] = len(tr.steps)
    smp["status"] = out["status"]
    if sample_extra:
        smp.update(sample_extra)
    out["sample"] = smp
    return out


def exec_rows(trace):
    return [s for s in trace.steps if "flux" in s]


def covering(rng, n, factors):
    """n dicts; factor values are cycled so that each value of each factor appears
    (a covering set first, random fill after)."""
    out = []
    for i in range(n):
        d = {}
        for name, vals in factors.items():
            vals = list(vals)
            d[name] = vals[i % len(vals)] if i < len(vals) * 2 else vals[int(rng.integers(0, len(vals)))]
        out.append(d)
    return out


def date_of(trace, t):
    return (trace.init["span0"] + dt.timedelta(days=int(t))).date()


def check_initial_pond(spec, trace, acc):
    """Water ponded before the first step: what the *user* configured for the management in force
    on the first simulated day - the in-season one when the run starts on the planting date, the
    fallow one (no bunds unless given) when it starts in a fallow period."""
    p = trace.init
    in_season = int(p.get("season0", -1)) == 0
    fm = (spec.get("fm") if in_season else spec.get("ffm")) or {}
    want = 0.0
    if fm.get("bunds") and float(fm.get("z_bund", 0.0)) * 1000.0 > 0.001:
        want = min(float(fm.get("bund_water", 0.0)), float(fm.get("z_bund", 0.0)) * 1000.0)
    got = float(p.get("pond_init", 0.0))
    acc.cov["initial_pond_checks"] += 1
    if want > 0:
        acc.cov["initial_pond_nonzero"] += 1
    if abs(got - want) > 1e-9:
        acc.add("initial-pond", f"{got!r} mm ponded before the first step; the {'in-season' if in_season else 'fallow'} "
                f"management configured for that day gives {want!r} mm", dict(got=got, want=want, in_season=in_season))
