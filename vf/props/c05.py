"""C05 Crop state stays inside its configured envelope - row monitor."""
import numpy as np

from .. import common, gen, sim
from . import base, c19
from .base import FX, GX

ID = "C05"
ANCHORS = ["solution/canopy_cover.py", "solution/root_development.py", "solution/harvest_index.py",
           "solution/HIref_current_day.py", "solution/biomass_accumulation.py",
           "solution/growing_degree_day.py", "solution/HIadj_post_anthesis.py",
           "solution/HIadj_pre_anthesis.py", "solution/HIadj_pollination.py"]
RULE = ("random valid configurations over all 37 built-in crops (calendar-day and thermal), "
        "layered custom soils with penetrability 10-90 %, water tables rising through the root "
        "zone, drought / waterlogging / frost / heat episodes; envelope parameters are read from "
        "that season's crop object at the season's first step and must equal the configured "
        "ones (catalogue + constructor arguments); non-trivial = >= 1 season with "
        ">= 30 in-season days and canopy cover > 0.1; distinct = spec digest")
ASSUMPTIONS = [
    "a negative dHI0 (-9) is AquaCrop's 'not applicable' sentinel and is read as 0 (lenient)",
    "monotonicity is judged between consecutive in-season days of one season only",
    "comparisons carry 1e-12 slack; sum of daily degree days within 1e-9 per day",
]
FLOORS = {
    "quick": {"twin_runs": 1, "envelope_bindings": 1, "in_season_days": 15000, "crops_seen": 30, "seasons": 150, "s_restrictive": 20,
              "d_root_at_table": 50, "s_early_senescence": 15, "s_crop_died": 5, "d_off_season": 1000, "d_hiadj_at_cap": 5},
    "thorough": {"twin_runs": 1, "envelope_bindings": 1, "in_season_days": 150000, "crops_seen": 37, "seasons": 1500, "s_restrictive": 200,
                 "d_root_at_table": 500, "s_early_senescence": 150, "s_crop_died": 50,
                 "d_off_season": 10000, "d_hiadj_at_cap": 50},
}
E = 1e-12
STATIC = ("CCx", "Zmin", "Zmax", "HI0", "dHI0", "Tupp", "Tbase")


def cases(tier, seed):
    n = base.n_cases(320, 3200, tier)
    names = common.crop_names()
    out = []
    for i in range(n):
        rng = gen.rng_for(seed, ID, i)
        cls = i % 6
        kw = dict(crops=[names[i % len(names)]], seasons=(1, 2), hostile=(cls in (2, 5)),
                  p_gw=0.2, flags=(cls == 4), harvest_early=0.1)
        if cls == 1:   # restrictive layers
            kw.update(p_custom=1.0, pen=True, p_gw=0.1)
        elif cls == 3:  # table rising through the root zone
            kw.update(p_gw=1.0, gw_depths=(0.15, 0.25, 0.4, 0.7, 1.0, 1.4, 2.0))   # incl. tables shallower than Zmin
        elif cls == 2:  # drought: early senescence, crop death
            kw.update(dry=True, regimes=["arid", "hot"], methods=(0, 0, 3), p_file=0.1)
        if cls == 5 and i % 4 == 1:
            kw.update(planting=f"{int(rng.integers(4, 7)):02d}/{int(rng.integers(1, 29)):02d}", p_file=0.0,
                      regimes=["arid", "hot"], seasons=(1, 2), off_season=False, p_gw=0.0, hostile=False, crops=["Cotton"])
        elif cls == 5 and i % 2 == 1:
            # harvest-index envelope: crops whose index may rise both before and after flowering
            # (dHI_pre > 0, small a_HI), mild drought on heavy soils from a moist start, several seasons
            kw.update(crops=[gen.pick(rng, ["Cotton", "CottonGDD", "Sorghum", "SorghumGDD", "Cassava", "Barley", "Wheat"])],
                      soil_names=["Clay", "ClayLoam", "SiltClay", "SandyClay", "Loam"], p_custom=0.1,
                      methods=(0, 0, 1, 3), regimes=["warm", "arid", "temperate"], seasons=(2, 4), off_season=False,
                      iwc_kinds=("FC", "Pct"), hostile=False, p_gw=0.0, harvest_early=0.0)
        if cls == 2 and i % 12 == 2:
            kw.update(crops=[c for c in common.cd_crops() if c in gen.usable_crops()], regimes=["polar"], p_file=0.0, methods=(0,))
        sp = gen.config(rng, **kw)
        if cls == 5 and i % 4 == 1:
            # deficit irrigation that keeps the root zone between the expansion and the stomatal
            # thresholds drives the adjusted harvest index to its allowed maximum
            sp["crop"]["name"] = gen.pick(rng, ["Cotton", "CottonGDD", "Cotton", "Sorghum"])
            sp["soil"] = {"type": gen.pick(rng, ["Clay", "Clay", "SiltClay", "SandyClay"]), "kw": {}}
            sp["iwc"] = {"wc_type": "Prop", "method": "Layer", "depth_layer": [1], "value": ["FC"]}
            sp["irr"] = {"method": 1, "kw": {"SMT": [float(x) for x in gen.pick(rng, [[40, 30, 20, 20], [45, 35, 25, 20], [35, 25, 15, 15]])]},
                         "schedule": None}
            sp["weather"].pop("params", None)
            sp["weather"].pop("episodes", None)
            sp["weather"].pop("south", None)
            sp.pop("gw", None)
            sp.pop("fm", None)
        c = {"spec": sp}
        if i % 8 == 6:
            # the same crop again, in the same process, with a narrower envelope supplied by the
            # user: the second model must live inside *its* envelope, not the first one's
            import copy
            cat = common.crop_catalogue()[sp["crop"]["name"]]
            tw = copy.deepcopy(sp)
            tw["crop"]["kw"].update(Zmin=float(gen.pick(rng, [0.2, 0.25, 0.4])), Zmax=round(max(0.5, cat["Zmax"] * float(gen.pick(rng, [0.5, 0.7]))), 2),
                                    CCx=round(cat["CCx"] * float(gen.pick(rng, [0.6, 0.85])), 3),
                                    HI0=round(cat["HI0"] * float(gen.pick(rng, [0.7, 0.9])), 3))
            c["twin"] = tw
        out.append(c)
    return out


def monitor(spec, res, acc):
    tr = res.trace
    cov = acc.cov
    wt = spec.get("gw") is not None
    prev = None
    gsum = 0.0
    season_days = {}
    seen_cc = {}
    nofy = acc.spec_feats.get("crop_has_no_YldWC", False)
    # the envelope the user configured: catalogue values of the crop overridden by the
    # constructor arguments; the model has no business changing these seven parameters
    conf = dict(common.crop_catalogue().get(spec["crop"]["name"], {}))
    conf.update(spec["crop"].get("kw", {}))
    bound = set()
    for s in tr.steps:
        t = s["t"]
        g = s["growth"]
        sc = s["sc"]
        # ---- finiteness of every crop output ------------------------------------------
        bad = [common.GROWTH_COLS[i] for i in range(len(g)) if not np.isfinite(g[i])]
        if bad:
            acc.add("non-finite", f"step {t}: crop output(s) {bad} not finite",
                    dict(t=t, columns=bad, values=[float(g[GX[c]]) for c in bad]),
                    dict(only_fresh_yield=(bad == ["FreshYield"])))
        if not s["gs"]:
            cov["d_off_season"] += 1
            nz = [c for c in ("canopy_cover", "biomass", "DryYield", "FreshYield", "YieldPot", "dap")
                  if g[GX[c]] != 0 and np.isfinite(g[GX[c]])]
            if nz:
                acc.add("off-season-nonzero", f"step {t}: out of season but {nz} non-zero",
                        dict(t=t, columns=nz, values=[float(g[GX[c]]) for c in nz]))
            prev = None
            continue
        cr = tr.season_crop.get(sc)
        if cr is None:
            acc.cov["no_crop_snapshot"] += 1
            continue
        cov["in_season_days"] += 1
        season_days[sc] = season_days.get(sc, 0) + 1
        if sc not in bound:
            bound.add(sc)
            cov["envelope_bindings"] += 1
            diff = {k: (float(cr[k]), float(conf[k])) for k in STATIC if k in conf and k in cr
                    and float(cr[k]) != float(conf[k])}
            if diff:
                acc.add("envelope-differs-from-configuration",
                        f"step {t}: season {sc} runs with " + ", ".join(f"{k}={a!r} (configured {b!r})" for k, (a, b) in diff.items()),
                        dict(t=t, season=sc, differing={k: list(v) for k, v in diff.items()}))
                cr = dict(cr)
                cr.update({k: conf[k] for k in diff})
                tr.season_crop[sc] = cr
        cc, ccns = g[GX["canopy_cover"]], g[GX["canopy_cover_ns"]]
        seen_cc[sc] = max(seen_cc.get(sc, 0.0), float(cc) if np.isfinite(cc) else 0.0)
        ccx = float(cr["CCx"])
        if not (-E <= cc <= ccx + E):
            acc.add("canopy-range", f"step {t}: canopy cover {cc!r} outside [0, CCx={ccx}]",
                    dict(t=t, cc=float(cc), CCx=ccx))
        if not cc <= ccns + E:
            acc.add("canopy-above-no-stress", f"step {t}: canopy cover {cc!r} > no-stress canopy {ccns!r}",
                    dict(t=t, cc=float(cc), cc_ns=float(ccns)))
        zr = g[GX["z_root"]]
        zmin, zmax = float(cr["Zmin"]), float(cr["Zmax"])
        # the table of that date as the user configured it (not the model's own daily series)
        zgw = float(c19.ref_zgw(spec["gw"], base.date_of(tr, t))) if (wt and spec.get("gw")) else (s["z_gw"] if wt else None)
        if not (zmin - E <= zr <= zmax + E):
            acc.add("root-range", f"step {t}: rooting depth {zr!r} outside [{zmin}, {zmax}]",
                    dict(t=t, z_root=float(zr), Zmin=zmin, Zmax=zmax))
        if wt and zgw is not None and zgw > 0:
            if not zr <= max(zgw, zmin) + E:
                acc.add("root-below-table", f"step {t}: rooting depth {zr!r} below the table at {zgw!r}",
                        dict(t=t, z_root=float(zr), z_gw=zgw))
            if abs(zr - max(zgw, zmin)) <= 1e-12 and zr < zmax:
                cov["d_root_at_table"] += 1
        cont = prev is not None and prev["sc"] == sc and s["dap"] == prev["dap"] + 1
        if s["dap"] == 1:
            gsum = 0.0
        gdd = g[GX["gdd"]]
        gsum += float(gdd)
        rng_ = float(cr["Tupp"]) - float(cr["Tbase"])
        if not (-E <= gdd <= rng_ + E):
            acc.add("gdd-range", f"step {t}: degree days {gdd!r} outside [0, {rng_}]",
                    dict(t=t, gdd=float(gdd), Tupp=cr["Tupp"], Tbase=cr["Tbase"]))
        if s["dap"] >= 1 and (s["dap"] == 1 or cont):
            if abs(gsum - g[GX["gdd_cum"]]) > 1e-9 * max(1, s["dap"]):
                acc.add("gdd-sum", f"step {t}: daily degree days add up to {gsum!r}, reported cumulative "
                        f"{g[GX['gdd_cum']]!r}", dict(t=t, sum=gsum, gdd_cum=float(g[GX["gdd_cum"]])))
                gsum = float(g[GX["gdd_cum"]])
        hi, hia = g[GX["harvest_index"]], g[GX["harvest_index_adj"]]
        hi0 = float(cr["HI0"])
        dhi0 = max(float(cr["dHI0"]), 0.0)
        if not hi <= hi0 + E:
            acc.add("HI-above-reference", f"step {t}: harvest index {hi!r} > HI0 {hi0}", dict(t=t, HI=float(hi)))
        if hia >= hi0 * (1 + dhi0 / 100.0) - 1e-9 and dhi0 > 0:
            cov["d_hiadj_at_cap"] += 1
        if hia > hi0 + 1e-9:
            cov["d_hiadj_above_reference"] += 1
        if not hia <= hi0 * (1 + dhi0 / 100.0) + E:
            acc.add("HIadj-above-allowed", f"step {t}: adjusted harvest index {hia!r} > HI0*(1+dHI0/100) = "
                    f"{hi0 * (1 + dhi0 / 100.0)!r}", dict(t=t, HIadj=float(hia), HI0=hi0, dHI0=cr["dHI0"]))
        if cont:
            pg = prev["growth"]
            for c in ("biomass", "gdd_cum", "harvest_index"):
                if g[GX[c]] < pg[GX[c]] - E:
                    acc.add("decreasing-" + c, f"step {t}: {c} fell from {pg[GX[c]]!r} to {g[GX[c]]!r}",
                            dict(t=t, column=c, before=float(pg[GX[c]]), after=float(g[GX[c]])))
            if zr < pg[GX["z_root"]] - E:
                forced = wt and zgw is not None and zgw > 0 and abs(zr - max(zgw, zmin)) <= 1e-12
                if not forced:
                    acc.add("root-shrinks", f"step {t}: rooting depth fell from {pg[GX['z_root']]!r} to {zr!r} "
                            "without a water table forcing it",
                            dict(t=t, before=float(pg[GX["z_root"]]), after=float(zr), z_gw=zgw))
        if s["premat"]:
            cov["d_premature_senescence"] += 1
        prev = s
    # season-level regime counters
    cov["seasons"] += len(season_days)
    died = set(s["sc"] for s in tr.steps if s["dead"] and s["gs"])
    cov["s_crop_died"] += len(died)
    cov["s_early_senescence"] += len(set(s["sc"] for s in tr.steps if s["premat"] and s["gs"]))
    if acc.spec_feats.get("restrictive_layer"):
        cov["s_restrictive"] += len(season_days)
    return any(n >= 30 and seen_cc.get(k, 0) > 0.1 for k, n in season_days.items())


def run_case(case):
    spec = case["spec"]
    res = sim.run(spec, opts=dict(ledger=False, irr=False))
    acc = base.Acc(spec)
    nt = monitor(spec, res, acc) if res.trace.steps else False
    if case.get("twin") is not None:
        tw = case["twin"]
        res2 = sim.run(tw, opts=dict(ledger=False, irr=False))
        acc2 = base.Acc(tw)
        if res2.trace.steps:
            monitor(tw, res2, acc2)
            acc.cov["twin_runs"] += 1
        for k, v in acc2.cov.items():
            acc.cov[k] += v
        for v in acc2.v:
            v["msg"] = "second model of the same crop with a user-supplied envelope: " + v.get("msg", "")
            acc.v.append(v)
        acc.total += acc2.total
    out = base.finish(spec, res, acc, nt, instruments=("step",),
                      sample_extra={"in_season_days": acc.cov.get("in_season_days", 0)})
    out["crop"] = spec["crop"]["name"] if res.trace.steps else None
    return out


def finalize(cases_, results, tier):
    crops = set(r.get("crop") for r in results if r.get("crop") and r.get("status") in ("held", "violated"))
    # expose the number of distinct crops as a counter for the floor
    if results:
        results[0].setdefault("cov", {})["crops_seen"] = len(crops)
    return {"crops_completed": sorted(crops)}
