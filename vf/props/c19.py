"""C19 Shallow groundwater behaves consistently - row monitor + far-table differential."""
import copy
import datetime as dt

import numpy as np

from .. import common, gen, sim, spec as S
from . import base
from .base import FX

ID = "C19"
TECHNIQUE = "runtime monitoring: row/ledger monitor with a date-based reference water-table series, plus differential runs (far table vs none)"
ANCHORS = ["solution/check_groundwater_table.py", "solution/capillary_rise.py",
           "solution/groundwater_inflow.py", "initialize/read_groundwater_table.py",
           "initialize/read_model_initial_conditions.py"]
RULE = ("every built-in soil + custom soils (incl. 4-decimal hydraulic values), tables 0-50 m, "
        "constant and varying (observation records longer than the window; the same GroundWater object "
        "handed to a second model over a later window) across the profile bottom and the root zone, deepened profiles, dry and "
        "saturated starts, all strategies; plus configurations without a table, and pairs "
        "(no table, constant table 10-50 m below the profile); non-trivial = >= 30 executed table "
        "days (or a completed pair); distinct = spec digest")
ASSUMPTIONS = [
    "compartment centres are cumsum(dz)-dz/2 with dz captured right after _initialize()",
    "capillary rise may end up to 5e-5 above the adjusted field capacity (the code rounds the free pore space to 0.0001)",
    "the reference table series is computed by date from the user's observations: held constant from each observation on (first one also before it), or linear in time",
]
FLOORS = {
    "quick": {"shifted_window_reuse_runs": 1, "table_days": 8000, "d_below_table": 1500, "d_gwin": 100, "d_cr": 1000,
              "cr_compartment_checks": 2000, "far_pairs": 30, "no_table_days": 3000,
              "zgw_series_checks": 8000, "d_thfc_adjusted": 2000},
    "thorough": {"shifted_window_reuse_runs": 1, "table_days": 80000, "d_below_table": 15000, "d_gwin": 1000, "d_cr": 10000,
                 "cr_compartment_checks": 20000, "far_pairs": 300, "no_table_days": 30000,
                 "zgw_series_checks": 80000, "d_thfc_adjusted": 20000},
}
E = 1e-9


def cases(tier, seed):
    n = base.n_cases(300, 3000, tier)
    out = []
    for i in range(n):
        rng = gen.rng_for(seed, ID, i)
        cls = i % 6
        if cls == 5:      # far-table pair
            kinds = ("FC", "WP", "SAT", "Pct", "Num") if i % 30 == 5 else ("WP", "SAT", "Pct", "Num")
            sp = gen.config(rng, p_gw=0.0, seasons=(1, 2), p_custom=0.4, hostile=(i % 12 == 5),
                            iwc_kinds=kinds)
            out.append({"spec": sp, "pair": float(rng.uniform(10, 50))})
            continue
        if cls == 4:      # no table: CR and GwIn must be zero
            sp = gen.config(rng, p_gw=0.0, seasons=(1, 2), p_custom=0.3, hostile=True)
            if i % 12 == 4:
                # observations left in place with the water table switched off
                sp["gw_off"] = dict(gen.gw_spec(rng, S.d(sp["start"]), S.d(sp["end"]), depths=(0.5, 0.9, 1.4)), switched_off=True)
            out.append({"spec": sp})
            continue
        depths = [(0.0, 0.04, 0.2, 0.4, 0.6, 0.9), (1.0, 1.3, 1.6, 2.0), (2.5, 3.5, 5.0), (0.3, 0.8, 1.5, 2.5, 6.0, 30.0)][cls]
        kw = dict(p_gw=1.0, gw_depths=depths, seasons=(1, 2), p_custom=0.4, wet=(i % 4 == 0), dry=(i % 4 == 1))
        if i % 10 == 7:
            kw.update(crops=["Maize", "Cotton", "Sunflower", "AlfalfaGDD", "Sorghum"])  # deepened profiles
        sp = gen.config(rng, **kw)
        out.append({"spec": sp, "shift": int(rng.integers(15, 150))})
    return out


def ref_zgw(gw, day):
    """Reference water-table depth on ``day`` from the user's observations."""
    obs = sorted((S.d(a), float(v)) for a, v in zip(gw["dates"], gw["values"]))
    if len(obs) == 1:
        return obs[0][1]
    if gw.get("method", "Constant") == "Constant":
        val = obs[0][1]
        for a, v in obs:
            if a <= day:
                val = v
        return val
    xs = [a.toordinal() for a, _ in obs]
    return float(np.interp(day.toordinal(), xs, [v for _, v in obs]))


def monitor(spec, res, acc):
    tr = res.trace
    p = tr.init
    cov = acc.cov
    gw = spec.get("gw")
    dz0 = tr.dz0
    centre = np.cumsum(dz0) - dz0 / 2
    thfc, ths = np.asarray(p["th_fc"], float), np.asarray(p["th_s"], float)
    zmid_model = np.asarray(p["zMid"], float)
    stale = bool(np.any(np.abs(zmid_model - centre) > 1e-9))
    S0 = S.d(spec["start"])
    for s in tr.steps:
        t = s["t"]
        f = s["flux"]
        if gw is None:
            cov["no_table_days"] += 1
            if f[FX["CR"]] != 0 or f[FX["GwIn"]] != 0:
                acc.add("flux-without-table", f"step {t}: no water table but CR={f[FX['CR']]!r} GwIn={f[FX['GwIn']]!r}",
                        dict(t=t))
            continue
        cov["table_days"] += 1
        day = S0 + dt.timedelta(days=t)
        zg = s["z_gw"]
        want = ref_zgw(gw, day)
        cov["zgw_series_checks"] += 1
        if zg is None or not abs(zg - want) <= 1e-9 or not abs(f[FX["z_gw"]] - want) <= 1e-9:
            acc.add("table-series", f"step {t} ({day}): water table at {zg!r} (column {f[FX['z_gw']]!r}), the "
                    f"observations give {want!r}", dict(t=t, model=zg, expected=want, method=gw.get("method")))
            continue
        adj = s["thfc_adj"]
        if np.any(adj < thfc - E) or np.any(adj > ths + E):
            i = int(np.argmax(np.maximum(thfc - adj, adj - ths)))
            acc.add("adjusted-fc-range", f"step {t}: adjusted field capacity [{i}]={adj[i]!r} outside "
                    f"[{thfc[i]!r}, {ths[i]!r}]", dict(t=t, comp=i))
        far = (zg - centre) >= 2.0
        if np.any(np.abs(adj[far] - thfc[far]) > 1e-12):
            i = int(np.where(far)[0][np.argmax(np.abs(adj[far] - thfc[far]))])
            acc.add("adjusted-fc-far", f"step {t}: compartment {i} centre {centre[i]:.3f} m is >= 2 m above the "
                    f"table ({zg}) but adjusted FC {adj[i]!r} != FC {thfc[i]!r}", dict(t=t, comp=i))
        if np.any(adj > thfc + 1e-12):
            cov["d_thfc_adjusted"] += 1
        below = centre > zg + 1e-9      # strictly below: a centre at the table (a tie decided by rounding) is not "below"
        if below.any():
            cov["d_below_table"] += 1
            th = s["th1"]
            bad = below & (th < ths - E)
            if bad.any():
                i = int(np.where(bad)[0][0])
                d9 = stale and zmid_model[i] < zg <= centre[i]
                acc.add("below-table-not-saturated",
                        f"step {t}: compartment {i} (centre {centre[i]:.3f} m) lies below the table at {zg} m "
                        f"but th={th[i]!r} < saturation {ths[i]!r}",
                        dict(t=t, comp=i, centre=float(centre[i]), model_zMid=float(zmid_model[i]), z_gw=zg),
                        dict(stale_midpoint_above_table=bool(d9)))
        for e in s["ledger"]:
            if e["p"] == "capillary_rise" and "th_b" in e:
                up = e["th_a"] > e["th_b"] + 1e-15
                if up.any():
                    cov["cr_compartment_checks"] += int(up.sum())
                    over = up & (e["th_a"] > e["thfc_adj"] + 5e-5)
                    if over.any():
                        i = int(np.where(over)[0][0])
                        acc.add("capillary-rise-above-adjusted-fc",
                                f"step {t}: capillary rise lifted compartment {i} to {e['th_a'][i]!r}, adjusted "
                                f"field capacity {e['thfc_adj'][i]!r}", dict(t=t, comp=i))
        if f[FX["CR"]] > 0:
            cov["d_cr"] += 1
        if f[FX["GwIn"]] > 0:
            cov["d_gwin"] += 1
    return len(tr.steps) >= 30


def fine_values(spec):
    s = spec["soil"]
    if s["type"] != "custom":
        return False
    for L in s["layers"]:
        if "thFC" in L and round(L["thFC"], 3) != L["thFC"]:
            return True
    return False


def run_case(case):
    spec = case["spec"]
    acc = base.Acc(spec)
    res = sim.run(spec, opts=dict(ledger=True, irr=False, cr_detail=spec.get("gw") is not None))
    nt = monitor(spec, res, acc) if res.trace.steps else False
    extra = {}
    gw = spec.get("gw")
    if (gw is not None and len(gw["dates"]) > 1 and res.status == "ok" and case.get("shift")
            and spec["weather"].get("kind") != "file"):
        # the user's GroundWater object handed to a second model over a window of the same length
        # that starts later: its table must follow the observations by date as well
        sp2 = copy.deepcopy(spec)
        k = int(case["shift"])
        sp2["start"] = S.ds(S.d(spec["start"]) + dt.timedelta(days=k))
        sp2["end"] = S.ds(S.d(spec["end"]) + dt.timedelta(days=k))
        if True:
            kw2 = S.build(sp2)
            kw2["groundwater"] = res.kw["groundwater"]
            res2 = sim.run(sp2, kw=kw2, opts=dict(ledger=True, irr=False, cr_detail=True))
            acc.cov["executions"] += 1
            if res2.trace.steps:
                acc2 = base.Acc(sp2)
                monitor(sp2, res2, acc2)
                acc.cov["shifted_window_reuse_runs"] += 1
                for kk, v in acc2.cov.items():
                    acc.cov[kk] += v
                for v in acc2.v:
                    v["msg"] = f"second model given the same GroundWater object, window moved by {k} days: " + v.get("msg", "")
                    acc.v.append(v)
                acc.total += acc2.total
    if case.get("pair") is not None and res.status == "ok":
        sp2 = copy.deepcopy(spec)
        depth = round(float(np.sum(res.trace.dz0)) + case["pair"], 2)
        sp2["gw"] = {"method": "Constant", "dates": [spec["start"]], "values": [depth]}
        res2 = sim.run(sp2, opts=dict(ledger=False, irr=False))
        acc.cov["executions"] += 1
        if res2.status != "ok":
            st, note = base.run_status(res2)
            acc.add("far-table-run-fails", f"the run with a table at {depth} m does not complete: {note}",
                    dict(depth=depth), site=f"{res2.exc[2][0]}.{res2.exc[2][1]}")
        else:
            acc.cov["far_pairs"] += 1
            iw = spec.get("iwc") or {}
            iv = [str(x) for x in (iw.get("value") or ["FC"])]
            d_init = float(np.max(np.abs(res.trace.init["th_init"] - res2.trace.init["th_init"]))) \
                if len(res.trace.init["th_init"]) == len(res2.trace.init["th_init"]) else 1.0
            feats = dict(fc_is_last_value=bool(iw.get("wc_type", "Prop") == "Prop" and iv[-1] == "FC"),
                         fc_requested=bool(iw.get("wc_type", "Prop") == "Prop" and "FC" in iv),
                         initial_content_differs_by_rounding_only=bool(d_init <= 5.0e-4),
                         fc_finer_than_3_decimals=bool(fine_values(spec)))
            names = ("water_flux", "water_storage", "crop_growth")
            for name, a, b in zip(names, res.tables, res2.tables):
                a, b = a.copy(), b.copy()
                if name == "water_flux":
                    a[:, FX["z_gw"]] = 0
                    b[:, FX["z_gw"]] = 0
                if a.shape != b.shape or not np.array_equal(a, b, equal_nan=True):
                    if a.shape == b.shape:
                        bad = np.argwhere(~((a == b) | (np.isnan(a) & np.isnan(b))))[0]
                        msg = (f"{name}[{int(bad[0])},{int(bad[1])}] = {a[tuple(bad)]!r} without a table, "
                               f"{b[tuple(bad)]!r} with a table at {depth} m")
                    else:
                        msg = f"{name} shapes differ {a.shape} vs {b.shape}"
                    acc.add("far-table-differs", msg, dict(depth=depth, table=name), feats)
                    break
            extra["far_table_depth"] = depth
    return base.finish(spec, res, acc, nt or bool(extra), instruments=("step",),
                       sample_extra=dict(extra, table_days=acc.cov.get("table_days", 0)))
