"""C04 Fluxes are non-negative and actual never exceeds potential - row monitor."""
import numpy as np

from .. import common, gen, sim
from . import base
from .base import FX, GX

ID = "C04"
ANCHORS = ["solution/soil_evaporation.py", "solution/transpiration.py", "solution/irrigation.py",
           "solution/drainage.py", "solution/capillary_rise.py"]
RULE = ("random valid configurations emphasising crops with CCx > 0.96 under full irrigation "
        "(canopy reaches CCx), ponded fields, mulches 0-100 % x f_mulch 0-1 and partial wetting "
        "20-100 % with strategies 1/2/3/5; non-trivial = >= 30 executed days with Es > 0 and "
        "Tr > 0 on some day; distinct = spec digest")
ASSUMPTIONS = [
    "net-irrigation requirement may be negative by 0.01 mm per compartment (root-zone bookkeeping rounding), as the property states",
    "comparisons use 1e-9 mm slack",
]
FLOORS = {
    "quick": {"days": 5000, "d_high_cc": 300, "d_pond": 200, "d_mulch": 300, "d_partial_wet": 300,
              "d_off_season": 300, "flux_checks": 45000},
    "thorough": {"days": 50000, "d_high_cc": 3000, "d_pond": 2000, "d_mulch": 3000,
                 "d_partial_wet": 3000, "d_off_season": 3000, "flux_checks": 450000},
}
E = 1e-9
NONNEG = ["IrrDay", "Runoff", "DeepPerc", "CR", "GwIn", "Es", "EsPot", "Tr", "TrPot"]


def high_ccx():
    cat = common.crop_catalogue()
    return [c for c, v in cat.items() if v["CCx"] > 0.96]


def cases(tier, seed):
    n = base.n_cases(300, 3000, tier)
    hc = high_ccx()
    out = []
    for i in range(n):
        rng = gen.rng_for(seed, ID, i)
        cls = i % 5
        kw = dict(p_gw=0.15, p_bunds=0.25, p_mulch=0.35, seasons=(1, 2), p_custom=0.25)
        if cls == 0:   # dense canopies, no water stress
            kw.update(crops=hc, methods=(1, 2, 5), limits=0.0, regimes=["warm", "humid", "temperate", "monsoon"])
        elif cls == 1:  # ponded
            kw.update(p_bunds=1.0, soil_names=["Paddy", "Clay", "SiltClay"], p_custom=0.1,
                      regimes=["monsoon", "humid"], methods=(0, 5, 2))
        elif cls == 2:  # mulched + partial wetting
            kw.update(p_mulch=1.0, methods=(1, 2, 3, 5))
        elif cls == 3:
            kw.update(off_season=True, hostile=True)
        elif cls == 4 and i % 10 == 4:   # net irrigation on layered soils (the requirement is computed per layer)
            kw.update(methods=(4,), soil_names=["ac_TunisLocal", "Paddy"], p_custom=0.6, dry=True,
                      crops=["Maize", "Cotton", "Sorghum", "Sunflower", "Wheat", "Soybean"], regimes=["arid", "warm", "hot"])
        sp = gen.config(rng, **kw)
        if cls == 0:
            k = sp["irr"]["kw"]
            k.pop("MaxIrr", None)
            k.pop("MaxIrrSeason", None)
            if sp["irr"]["method"] == 1:
                k["SMT"] = [80.0] * 4
            if sp["irr"]["method"] == 5:
                k["depth"] = 8.0
        if cls == 4 and i % 10 == 4 and i % 20 == 4:
            # an evaporation layer that cannot expand, re-wetted from below by net irrigation
            sp["soil"].setdefault("kw", {})
            sp["soil"]["kw"]["evap_z_min"] = sp["soil"]["kw"]["evap_z_max"] = float(gen.pick(rng, [0.15, 0.2, 0.3]))
        if cls == 2:
            sp["irr"]["kw"]["WetSurf"] = float(gen.pick(rng, [20, 50, 80, 100]))
        out.append({"spec": sp})
    # net irrigation over several years, low and high refill thresholds, moist starts: the
    # requirement of a day is small there, and a bookkeeping slip shows as a negative one
    for j in range(base.n_cases(60, 600, tier)):
        rng = gen.rng_for(seed, ID, 10 ** 5 + j)
        sp = gen.config(rng, methods=(4,), seasons=(2, 3), p_gw=0.0, p_bunds=0.0, p_custom=0.2, iwc_kinds=("FC", "Pct"),
                        regimes=["temperate", "warm", "humid", "arid"], p_file=0.3)
        sp["irr"]["kw"]["NetIrrSMT"] = float(gen.pick(rng, [10, 10, 20, 40, 70]))
        out.append({"spec": sp})
    return out


def monitor(spec, res, acc):
    tr = res.trace
    cov = acc.cov
    method = base.S.irr_method(spec)
    ncomp = len(tr.dz0)
    tops = np.cumsum(tr.dz0) - tr.dz0
    wet = float((spec.get("irr") or {}).get("kw", {}).get("WetSurf", 100.0))
    seen_es = seen_tr = False
    for s in tr.steps:
        t = s["t"]
        f = s["flux"]
        cov["days"] += 1
        for c in NONNEG:
            cov["flux_checks"] += 1
            v = f[FX[c]]
            if c == "IrrDay" and method == 4:
                # 0.01 mm for every compartment the root zone reaches into (plus one for the
                # partially rooted one), not for the whole profile
                zr = float(s["growth"][GX["z_root"]])
                tol = 0.01 * (int(np.sum(tops < max(zr, 0.0) - 1e-12)) + 1)
            else:
                tol = E
            if not v >= -tol:
                acc.add("negative-" + c, f"step {t}: {c}={v!r}",
                        dict(t=t, column=c, value=float(v), cc=float(s["growth"][GX["canopy_cover"]])),
                        dict(column=c))
        es, esp, trr, trp = f[FX["Es"]], f[FX["EsPot"]], f[FX["Tr"]], f[FX["TrPot"]]
        if not es <= esp + E:
            acc.add("Es-exceeds-EsPot", f"step {t}: Es={es!r} > EsPot={esp!r}",
                    dict(t=t, Es=float(es), EsPot=float(esp), cc=float(s["growth"][GX["canopy_cover"]])))
        if not trr <= trp + E:
            acc.add("Tr-exceeds-TrPot", f"step {t}: Tr={trr!r} > TrPot={trp!r}",
                    dict(t=t, Tr=float(trr), TrPot=float(trp)))
        if not s["gs"]:
            cov["d_off_season"] += 1
            if trr != 0 or trp != 0 or f[FX["IrrDay"]] != 0:
                acc.add("off-season-nonzero", f"step {t}: out of season but Tr={trr!r} TrPot={trp!r} "
                        f"IrrDay={f[FX['IrrDay']]!r}", dict(t=t))
        else:
            if s["growth"][GX["canopy_cover"]] > 0.966:
                cov["d_high_cc"] += 1
            m = tr.init["fm"]
            if m["mulches"] and m["mulch_pct"] > 0:
                cov["d_mulch"] += 1
            if wet < 100 and f[FX["IrrDay"]] > 0 and method in (1, 2, 3, 5):
                cov["d_partial_wet"] += 1
        if s["pond1"] > 0:
            cov["d_pond"] += 1
        seen_es = seen_es or es > 0
        seen_tr = seen_tr or trr > 0
    return len(tr.steps) >= 30 and seen_es and seen_tr


def run_case(case):
    spec = case["spec"]
    res = sim.run(spec, opts=dict(ledger=False, irr=False))
    acc = base.Acc(spec)
    nt = monitor(spec, res, acc) if res.trace.steps else False
    return base.finish(spec, res, acc, nt, instruments=("step",),
                       sample_extra={"high_cc_days": acc.cov.get("d_high_cc", 0)})
