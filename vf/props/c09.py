"""C09 Step-wise execution equals one uninterrupted run - differential monitor over step
compositions (all 2^(n-1) compositions for short windows, random ones for long windows)."""
import copy
import datetime as dt
import itertools

import numpy as np
import pandas as pd

from .. import common, gen, sim, spec as S
from . import base

ID = "C09"
TECHNIQUE = "runtime monitoring: differential oracle over recorded outputs and completion status after every run_model call, exhaustive over all step compositions of short windows"
ANCHORS = ["core.py", "timestep/update_time.py", "timestep/check_if_model_is_finished.py",
           "timestep/outputs_when_model_is_finished.py"]
RULE = ("base = one run to termination; partner = first call with initialize_model=True then "
        "run_model(num_steps=k_i, initialize_model=False) for a composition (k_1..k_m) of the "
        "number of steps the base run executed (measured by the step tap), the last part "
        "overshooting by 0, 1 or 10^6; ALL compositions of windows with <= 9 executed steps "
        "(incl. one crossing a season start and one ending by an early harvest date), random "
        "compositions with parts from {1,2,3,7,30,365,rest+1} for 1-3 season windows; non-trivial = "
        "composition with >= 2 parts; distinct = (spec digest, composition)")
ASSUMPTIONS = [
    "a call made after termination is an overshoot like any other: it must not raise, change the tables or the status",
    "process_outputs stays False; tables are compared by value (ndarray vs DataFrame)",
]
FLOORS = {
    "quick": {"compositions": 700, "exhaustive_windows": 3, "random_compositions": 150,
              "crossing_season_start": 40, "status_checks": 3000, "overshoot_calls": 200},
    "thorough": {"compositions": 4000, "exhaustive_windows": 8, "random_compositions": 1500,
                 "crossing_season_start": 400, "status_checks": 30000, "overshoot_calls": 1500},
}
CASE_TIMEOUT = {"quick": 400, "thorough": 1200}


def compositions(n):
    """All compositions of n as tuples of positive parts (2^(n-1) of them)."""
    out = []
    for mask in range(1 << (n - 1)):
        parts, run = [], 1
        for i in range(n - 1):
            if mask >> i & 1:
                parts.append(run)
                run = 1
            else:
                run += 1
        parts.append(run)
        out.append(tuple(parts))
    return out


def short_windows(rng, k):
    """Short-window configurations (<= 9 executed steps)."""
    out = []
    for j in range(k):
        shape = j % 4
        crop = gen.pick(rng, ["Maize", "Sorghum", "Tomato", "PaddyRice", "Potato", "Barley", "DryBean"])
        planting = f"{int(rng.integers(3, 7)):02d}/{int(rng.integers(1, 29)):02d}"
        sp = gen.config(rng, crops=[crop], seasons=(1, 1), pre=(0,), end_shape="after", p_gw=0.3,
                        p_file=0.0, regimes=["warm", "humid", "monsoon"], off_season=bool(j % 2),
                        planting=planting)
        m, d_ = [int(x) for x in planting.split("/")]
        y = S.d(sp["start"]).year
        p0 = dt.date(y, m, d_)
        if shape == 0:     # starts on the planting date: 9 in-season steps
            start, end = p0, p0 + dt.timedelta(days=9)
        elif shape == 1:   # starts 4 days before planting: crosses the season start
            start, end = p0 - dt.timedelta(days=4), p0 + dt.timedelta(days=5)
        elif shape == 2:   # ends by an early harvest date, off-season simulated
            start, end = p0, p0 + dt.timedelta(days=9)
            h = p0 + dt.timedelta(days=5)
            sp["crop"]["harvest"] = f"{h.month:02d}/{h.day:02d}"
            sp["off_season"] = True
        else:              # 7 steps, starts 2 days before planting
            start, end = p0 - dt.timedelta(days=2), p0 + dt.timedelta(days=5)
        sp["start"], sp["end"] = gen.fmt(start), gen.fmt(end)
        if sp.get("gw"):
            sp["gw"] = {"method": "Constant", "dates": [sp["start"]], "values": [sp["gw"]["values"][0]]}
        if sp["irr"]["method"] == 3:
            sp["irr"]["schedule"] = [[gen.fmt(start + dt.timedelta(days=i)), 10.0] for i in (0, 3, 6)]
        out.append(sp)
    return out


def cases(tier, seed):
    out = []
    rng = gen.rng_for(seed, ID, 0)
    nshort = 4 if tier == "quick" else 12
    for j, sp in enumerate(short_windows(rng, nshort)):
        # exhaustive: chunk ids; the worker enumerates the compositions itself
        nchunks = 8
        for c in range(nchunks):
            out.append({"spec": sp, "mode": "all", "chunk": c, "nchunks": nchunks, "window": j})
    n = base.n_cases(40, 400, tier)
    for i in range(n):
        r = gen.rng_for(seed, ID, i + 1)
        sp = gen.config(r, seasons=(1, 3), off_season=bool(i % 2), p_gw=0.2, p_custom=0.2,
                        pre=(0, 5, 40), harvest_early=0.15)
        out.append({"spec": sp, "mode": "random", "k": 5, "seed": int(r.integers(0, 2 ** 31 - 1))})
    return out


def tables_of(model):
    o = model._outputs
    return [np.asarray(getattr(x, "values", x), dtype=float) for x in (o.water_flux, o.water_storage, o.crop_growth)]


def run_partner(spec, comp, acc, base_res, cov, label, model=None, peek=False):
    """Run one composition; returns the model (so that the next composition can re-use the
    object: a terminated model re-initialised by its first call must behave like a fresh one)."""
    common.use_repo()
    reused = model is not None
    if model is None:
        model = S.make_model(spec)
    else:
        cov["reused_model_objects"] += 1
    N = len(base_res.trace.steps)
    done = 0
    ok = True
    for i, k in enumerate(comp):
        try:
            model.run_model(num_steps=int(k), initialize_model=(i == 0))
        except Exception as ex:  # noqa: BLE001
            info = sim.exc_info(ex)
            acc.add("stepwise-run-raises", f"composition {list(comp)[:12]}: call {i + 1} (num_steps={k}) raised "
                    f"{info[0]}: {info[1][:80]}", dict(composition=list(comp)[:40], call=i + 1),
                    site=f"{info[2][0]}.{info[2][1]}")
            return False
        done += k
        cov["status_checks"] += 1
        fin = bool(model.get_additional_information()["has_model_finished"])
        resu = model.get_simulation_results()
        if peek:
            # a step-wise driver looks at the tables between calls; reading must not disturb them
            for getter in (model.get_water_flux, model.get_water_storage, model.get_crop_growth):
                getter()
            cov["peeks_between_calls"] += 1
        want = done >= N
        if fin != want or (resu is False) == want:
            acc.add("completion-status", f"composition {list(comp)[:12]}{' on a re-used model object' if reused else ''}: after call {i + 1} ({done} of {N} steps "
                    f"requested) has_model_finished={fin}, results {'withheld' if resu is False else 'returned'}; "
                    f"expected {'finished' if want else 'unfinished'}",
                    dict(composition=list(comp)[:40], call=i + 1, done=done, N=N))
            ok = False
        if done > N:
            cov["overshoot_calls"] += 1
    tabs = tables_of(model)
    for name, a, b in zip(("water_flux", "water_storage", "crop_growth"), base_res.tables, tabs):
        if a.shape != b.shape or not np.array_equal(a, b, equal_nan=True):
            where = ""
            if a.shape == b.shape:
                bad = np.argwhere(~((a == b) | (np.isnan(a) & np.isnan(b))))[0]
                where = f" first at [{int(bad[0])},{int(bad[1])}]: {a[tuple(bad)]!r} vs {b[tuple(bad)]!r}"
            acc.add("tables-differ", f"composition {list(comp)[:12]}: {name} differs from the uninterrupted run{where}",
                    dict(composition=list(comp)[:40], table=name))
            ok = False
            break
    sa, sb = base_res.summary, model._outputs.final_stats
    same = list(sa.index) == list(sb.index) and all(
        (x == y) or (x != x and y != y) for col in sa.columns for x, y in zip(sa[col].tolist(), sb[col].tolist()))
    if not same:
        acc.add("summary-differs", f"composition {list(comp)[:12]}: seasonal summary differs from the uninterrupted run",
                dict(composition=list(comp)[:40]))
        ok = False
    return model


def run_case(case):
    spec = case["spec"]
    acc = base.Acc(spec, limit=8)
    cov = acc.cov
    B = sim.run(spec, opts=dict(ledger=False, irr=False))
    if B.status != "ok":
        return base.finish(spec, B, acc, False, instruments=("step",))
    N = len(B.trace.steps)
    ts = [s["t"] for s in B.trace.steps]
    crosses = any(s["dap"] == 1 for s in B.trace.steps[1:])
    comps = []
    if case["mode"] == "all":
        if N > 10 or N < 1:
            return dict(status="inconclusive", note=f"short window executed {N} steps", violations=[], cov=dict(cov))
        allc = compositions(N)
        comps = [c for i, c in enumerate(allc) if i % case["nchunks"] == case["chunk"]]
        # overshoot the last part by 0, 1 or 10^6 in rotation
        comps = [c[:-1] + (c[-1] + (0, 1, 10 ** 6)[i % 3],) for i, c in enumerate(comps)]
        if case["chunk"] == 0:
            cov["exhaustive_windows"] += 1
            cov["exhaustive_compositions_total"] += len(allc)
    else:
        rng = np.random.default_rng(case["seed"])
        for _ in range(case["k"]):
            parts, rem = [], N
            while rem > 0:
                k = int(rng.choice([1, 2, 3, 7, 30, 365, rem + 1, rem]))
                parts.append(k)
                rem -= k
            if rem == 0 and rng.random() < 0.5:
                parts[-1] += int(rng.choice([1, 10 ** 6]))
            comps.append(tuple(parts))
        cov["random_compositions"] += len(comps)
    # a driver that does not know how long the run is keeps calling: every fourth composition
    # is followed by one or two more calls after termination
    comps = [c + tuple(int(x) for x in ((1,), (5, 1), (10 ** 6,))[i % 3]) if i % 4 == 1 else c
             for i, c in enumerate(comps)]
    cov["compositions_with_calls_after_termination"] += sum(1 for i in range(len(comps)) if i % 4 == 1)
    n2 = 0
    prev_model = None
    for comp in comps:
        cov["compositions"] += 1
        cov["executions"] += 1
        if crosses:
            cov["crossing_season_start"] += 1
        if len(comp) >= 2:
            n2 += 1
        j = cov["compositions"]
        # every third composition re-uses the (terminated) model object of the previous one;
        # every second one reads the daily tables between calls
        prev_model = run_partner(spec, comp, acc, B, cov, case["mode"],
                                 model=(prev_model if j % 3 == 0 else None), peek=(j % 2 == 0))
    out = base.finish(spec, B, acc, n2 > 0, instruments=("step",),
                      sample_extra={"steps_to_termination": N, "mode": case["mode"],
                                    "compositions": [list(c)[:10] for c in comps[:3]]})
    out["key"] = out["key"] + f"/{case['mode']}/{case.get('chunk', case.get('seed'))}"
    return out


def finalize(cases_, results, tier):
    return {"exhaustive": False,
            "exhaustive_subspaces": "all 2^(n-1) step compositions of each short window (n <= 9 executed steps); "
                                    "see observed.exhaustive_windows / exhaustive_compositions_total"}
