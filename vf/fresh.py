"""Fresh-interpreter runner: reads {"plan":[{"spec":..., "run":bool}, ...]} on stdin, executes
the models in that order in this process and prints {"digests":[...], "globals":[...]}.

Used by C10 (every hash seed, every order) - started with ``subprocess.run`` so that nothing
is shared with the parent."""
import json
import sys

from . import common


def global_digest():
    """Digest per process-global object the model could leak through (I6)."""
    common.use_repo()
    import inspect

    from . import instrument as I
    import aquacrop.core as core
    import aquacrop.entities.crops.crop_params as cp
    from aquacrop.entities import (co2, crop, fieldManagement, groundWater, inititalWaterContent,
                                   irrigationManagement, modelConstants, soil)
    from aquacrop.initialize import compute_variables as cv

    out = {}
    out["crop_params"] = I.dig({k: dict(v) for k, v in cp.crop_params.items()})

    def defaults(f):
        sig = inspect.signature(f)
        return {k: (repr(v.default)) for k, v in sig.parameters.items() if v.default is not inspect._empty}

    out["Soil.__init__ defaults"] = I.dig(defaults(soil.Soil.__init__))
    out["InitialWaterContent.__init__ defaults"] = I.dig(defaults(inititalWaterContent.InitialWaterContent.__init__))
    out["GroundWater.__init__ defaults"] = I.dig(defaults(groundWater.GroundWater.__init__))
    out["FieldMngt.__init__ defaults"] = I.dig(defaults(fieldManagement.FieldMngt.__init__))
    out["CO2.__init__ defaults"] = I.dig(defaults(co2.CO2.__init__))
    out["compute_variables defaults"] = I.dig(defaults(cv.compute_variables))
    for cls in (core.AquaCropModel, modelConstants.ModelConstants, soil.Soil, crop.Crop,
                irrigationManagement.IrrigationManagement, irrigationManagement.IrrMngtStruct,
                fieldManagement.FieldMngt, fieldManagement.FieldMngtStruct, groundWater.GroundWater,
                inititalWaterContent.InitialWaterContent, co2.CO2):
        d = {k: repr(v) for k, v in vars(cls).items()
             if not callable(v) and not isinstance(v, (property, staticmethod, classmethod))
             and not (k.startswith("__") and k.endswith("__"))}   # interpreter bookkeeping
        # (e.g. copyreg caches __slotnames__ on a class the first time an instance is deep-copied)
        out["class " + cls.__name__] = I.dig(d)
    return out


def run_plan(plan):
    from . import sim

    digests, globs, status = [], [global_digest()], []
    for item in plan:
        if item.get("pause"):
            # model of this item is stepped for a while, another model is built and run to the
            # end, then this one is continued: "whatever ran earlier" includes models that ran
            # while this one was waiting
            import numpy as np
            from . import spec as S

            try:
                m = S.make_model(item["spec"])
                m.run_model(num_steps=int(item["pause"]["steps"]), initialize_model=True)
                other = sim.run(item["pause"]["spec"], opts=dict(ledger=False, irr=False), fp_trap=False)
                m.run_model(till_termination=True, initialize_model=False)
                r = sim.RunResult()
                o = m._outputs
                r.tables = tuple(np.asarray(getattr(x, "values", x), dtype=float)
                                 for x in (o.water_flux, o.water_storage, o.crop_growth))
                r.summary = o.final_stats
                status.append("ok")
                digests.append(sim.tables_digest(r))
            except Exception as ex:  # noqa: BLE001
                info = sim.exc_info(ex)
                perm = sim.permitted_rejection(info)
                status.append(("rejected: " if perm else "error: ") + f"{info[0]}: {info[1][:80]}")
                digests.append(None)
        elif item.get("run", True):
            r = sim.run(item["spec"], opts=dict(ledger=False, irr=False), fp_trap=False)
            status.append(r.status if r.status == "ok" else f"{r.status}: {r.exc[0]}: {r.exc[1][:80]}")
            digests.append(sim.tables_digest(r) if r.status == "ok" else None)
        else:
            from . import spec as S

            try:
                S.make_model(item["spec"])
                status.append("built")
            except Exception as ex:  # noqa: BLE001
                status.append(f"build failed: {ex!r}")
            digests.append(None)
        globs.append(global_digest())
    return {"digests": digests, "globals": globs, "status": status}


if __name__ == "__main__":
    req = json.loads(sys.stdin.read())
    common.use_repo()
    print(json.dumps(run_plan(req["plan"])))
