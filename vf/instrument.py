"""Instrumentation I1..I11 (DESIGN.md section 3).

Every observation point is reached by *rebinding names in the namespaces the repository
itself looks them up in* (``core.solution_single_time_step``, the process functions in
``run_single_timestep``, ``update_time.reset_initial_conditions`` ...), so no in-repo
hook is needed.  Wrappers are installed once per process and forward to the currently
active :class:`Trace` (``ACTIVE``); with no active trace they are transparent.

Every wrapper counts its calls in ``trace.n[...]``; monitors treat a zero count of their
deciding instrument as *inconclusive*.
"""
import collections
import hashlib
import signal
import sys
import traceback

import numpy as np

from . import common

ACTIVE = None  # the Trace receiving events, or None
_INSTALLED = False
_ORIG = {}


class HarnessAbort(BaseException):
    """Raised by a logical-time watchdog (step bound, line budget)."""


class HarnessTimeout(BaseException):
    """Raised by the wall-clock alarm; always *inconclusive*, never a violation."""


# ------------------------------------------------------------------------------------
# digests
# ------------------------------------------------------------------------------------

def dig(o):
    h = hashlib.blake2b(digest_size=8)
    _dig(h, o)
    return h.hexdigest()


def _dig(h, o):
    if isinstance(o, np.ndarray):
        h.update(str(o.dtype).encode())
        h.update(str(o.shape).encode())
        if o.dtype == object:
            h.update(repr(o.tolist()).encode())
        else:
            h.update(np.ascontiguousarray(o).tobytes())
    elif isinstance(o, dict):
        for k in sorted(o, key=str):
            h.update(str(k).encode())
            _dig(h, o[k])
    elif isinstance(o, (list, tuple)):
        h.update(b"[")
        for x in o:
            _dig(h, x)
        h.update(b"]")
    elif hasattr(o, "to_numpy") and hasattr(o, "index"):  # pandas Series / DataFrame / Index
        try:
            h.update(repr(list(getattr(o, "columns", []))).encode())
            _dig(h, np.asarray(o.to_numpy()))
            _dig(h, np.asarray(o.index.to_numpy()))
        except Exception:
            h.update(repr(o).encode())
    elif isinstance(o, (float, np.floating)):
        h.update(np.float64(o).tobytes())
    else:
        h.update(repr(o).encode())


PROFILE_GEOM = ["dz", "dzsum", "zBot", "z_top", "zMid", "Comp", "Layer"]
PROFILE_HYD = ["th_fc", "th_s", "th_wp", "th_dry", "Ksat", "Penetrability", "tau", "aCR", "bCR"]
SOIL_SCALARS = [
    "zSoil", "nComp", "nLayer", "adj_rew", "rew", "calc_cn", "cn", "z_res", "evap_z_surf",
    "evap_z_min", "evap_z_max", "kex", "f_evap", "f_wrel_exp", "fwcc", "z_cn", "z_germ",
    "adj_cn", "fshape_cr", "z_top",
]


def param_groups(ps):
    """Digest per parameter group of a ParamStruct (I5)."""
    prof = ps.Soil.Profile
    g = {}
    g["profile_geometry"] = dig({k: getattr(prof, k) for k in PROFILE_GEOM})
    g["profile_hydraulics"] = dig({k: getattr(prof, k) for k in PROFILE_HYD})
    g["profile_adjusted_fc"] = dig(np.asarray(getattr(prof, "th_fc_Adj", ()), dtype=float))
    g["soil_scalars"] = dig({k: getattr(ps.Soil, k, None) for k in SOIL_SCALARS})
    g["irrigation"] = dig(dict(ps.IrrMngt.__dict__))
    g["fallow_irrigation"] = dig(dict(ps.FallowIrrMngt.__dict__))
    g["field_mngt"] = dig(dict(ps.FieldMngt.__dict__))
    g["fallow_field_mngt"] = dig(dict(ps.FallowFieldMngt.__dict__))
    g["z_gw"] = dig(np.asarray(ps.z_gw, dtype=float))
    g["water_table"] = dig([ps.water_table, ps.WTMethod])
    co2 = ps.CO2
    g["co2"] = dig({k: v for k, v in co2.__dict__.items()})
    for i, c in enumerate(ps.Seasonal_Crop_List):
        g[f"crop{i}"] = dig(dict(c.__dict__))
    return g


def weather_digest(w):
    """Digest of the four numeric columns + dates of the model's weather matrix."""
    a = np.asarray(w)
    try:
        num = np.asarray(a[:, :4], dtype=float)
        dates = np.asarray(a[:, 4], dtype="datetime64[ns]").astype("int64")
        return dig([num, dates])
    except Exception:
        return dig(a)


# ------------------------------------------------------------------------------------
# Trace
# ------------------------------------------------------------------------------------

class Trace:
    """Everything observed about one model run."""

    def __init__(self, opts=None):
        o = dict(ledger=True, irr=True, digests=False, protect=False, spy=False,
                 season_state=False, cr_detail=False, contracts=False, biomass=False,
                 step_bound=True)
        o.update(opts or {})
        self.o = o
        self.n = collections.Counter()      # calls per instrument
        self.steps = []                     # one dict per executed step (I1)
        self.cur = None                     # the step being executed
        self.resets = []                    # (step index entered, season) per reset
        self.irr_calls = []                 # I3
        self.bio_calls = []                 # biomass_accumulation tap
        self.reads = []                     # I4 (step, key kind, key)
        self.dig = []                       # (t, 'pre'|'post', groups) (I5)
        self.wdig = []                      # (label, weather digest)
        self.season_state = {}              # season -> InitialCondition snapshot (I11)
        self.season_crop = {}               # season -> crop parameter dict at its first step
        self.contract_viol = []             # ride-along response-function contracts (C17)
        self.fp = []                        # I9 floating-point events
        self.init = {}                      # snapshots taken right after _initialize()
        self.max_steps = None
        self.seen_t = set()
        self.errors = []                    # instrumentation problems -> inconclusive
        self.dz0 = None
        self.phase = "build"
        self._read_ptr = 0

    # storage in mm with the thickness captured at initialisation
    def stor(self, th, pond):
        return float(np.dot(np.asarray(th, dtype=float), self.dz0) * 1000.0 + float(pond))


def _margins(tr, th):
    p = tr.init
    th = np.asarray(th, dtype=float)
    return float(np.min(th - p["th_dry"])), float(np.min(p["th_s"] - th))


# ------------------------------------------------------------------------------------
# wrappers
# ------------------------------------------------------------------------------------

def _w_step(ic, ps, cs, wstep, out):
    tr = ACTIVE
    f = _ORIG["step"]
    if tr is None:
        return f(ic, ps, cs, wstep, out)
    tr.n["step"] += 1
    t = int(cs.time_step_counter)
    if tr.o["step_bound"]:
        if t in tr.seen_t:
            raise HarnessAbort(f"step {t} executed twice")
        if tr.max_steps is not None and tr.n["step"] > tr.max_steps:
            raise HarnessAbort(f"more than {tr.max_steps} steps executed")
    tr.seen_t.add(t)
    rec = dict(
        t=t, date=cs.step_start_time, sc=int(cs.season_counter),
        th0=np.array(ic.th, dtype=float), pond0=float(ic.surface_storage),
        thini_dig=dig(np.asarray(ic.thini, dtype=float)),
        th_is_thini=ic.th is ic.thini,
        w_in=tuple(wstep[i] for i in range(5)) if len(wstep) >= 5 else tuple(wstep),
        ledger=[], reads=tr.reads[tr._read_ptr:],
    )
    tr._read_ptr = len(tr.reads)
    if tr.o["digests"]:
        tr.dig.append((t, "pre", param_groups(ps)))
    sc = rec["sc"]
    if sc >= 0 and sc not in tr.season_crop:
        tr.season_crop[sc] = dict(ps.Seasonal_Crop_List[sc].__dict__)
        if tr.o["season_state"]:
            tr.season_state[sc] = _state_snapshot(ic)
    tr.cur = rec
    try:
        r = f(ic, ps, cs, wstep, out)
    finally:
        tr.cur = None
    nc = r[0]
    rec.update(
        flux=np.array(out.water_flux[t], dtype=float),
        growth=np.array(out.crop_growth[t], dtype=float),
        stor_row=np.array(out.water_storage[t], dtype=float),
        th1=np.array(nc.th, dtype=float), pond1=float(nc.surface_storage),
        gs=bool(nc.growing_season), dap=int(nc.dap), mature=bool(nc.crop_mature),
        dead=bool(nc.crop_dead), hf=bool(nc.harvest_flag), germ=bool(nc.germination),
        stage=int(nc.growth_stage), gdd_cum=float(nc.gdd_cum),
        thfc_adj=np.array(nc.th_fc_Adj, dtype=float),
        z_gw=(None if nc.z_gw is None else float(nc.z_gw)),
        wt_in_soil=nc.wt_in_soil,
        w_state=(nc.precipitation, nc.temp_max, nc.temp_min, nc.et0),
        premat=bool(nc.premat_senes), z_root=float(nc.z_root),
        delayed_cds=float(nc.delayed_cds), delayed_gdds=float(nc.delayed_gdds),
        n_final=len(out.final_stats),
    )
    if tr.o["digests"]:
        tr.dig.append((t, "post", param_groups(ps)))
    tr.steps.append(rec)
    return r


def _state_snapshot(ic):
    out = {}
    for k, v in ic.__dict__.items():
        out[k] = np.array(v) if isinstance(v, np.ndarray) else v
    return out


def _ledger(tr, name, s0, s1, flux, th_after, extra=None):
    if tr.cur is None:
        return
    lo, hi = _margins(tr, th_after)
    e = dict(p=name, dS=s1 - s0, flux=float(flux), lo=lo, hi=hi)
    if extra:
        e.update(extra)
    tr.cur["ledger"].append(e)


def _w_pre_irrigation(*a, **k):
    tr = ACTIVE
    f = _ORIG["pre_irrigation"]
    if tr is None or not tr.o["ledger"]:
        return f(*a, **k)
    tr.n["pre_irrigation"] += 1
    nc = a[2]
    s0 = tr.stor(nc.th, nc.surface_storage)
    r = f(*a, **k)
    s1 = tr.stor(r[0].th, r[0].surface_storage)
    _ledger(tr, "pre_irrigation", s0, s1, r[1], r[0].th)
    if tr.cur is not None:
        tr.cur["PreIrr"] = float(r[1])
    return r


def _w_drainage(*a, **k):
    tr = ACTIVE
    f = _ORIG["drainage"]
    if tr is None or not tr.o["ledger"]:
        return f(*a, **k)
    tr.n["drainage"] += 1
    s0 = tr.stor(a[1], 0.0)
    r = f(*a, **k)
    s1 = tr.stor(r[0], 0.0)
    _ledger(tr, "drainage", s0, s1, -float(r[1]), r[0])
    if tr.cur is not None:
        tr.cur["dp_drain"] = float(r[1])
    return r


def _w_rainfall_partition(*a, **k):
    tr = ACTIVE
    f = _ORIG["rainfall_partition"]
    if tr is None or not tr.o["ledger"]:
        return f(*a, **k)
    tr.n["rainfall_partition"] += 1
    s0 = tr.stor(a[1], 0.0)
    r = f(*a, **k)
    s1 = tr.stor(a[1], 0.0)
    _ledger(tr, "rainfall_partition", s0, s1, 0.0, a[1])
    if tr.cur is not None:
        tr.cur["rp"] = dict(P=float(a[0]), runoff=float(r[0]), infl=float(r[1]),
                            sr_inhb=bool(a[3]), bunds=bool(a[4]), z_bund=float(a[5]))
    return r


def _w_irrigation(*a, **k):
    tr = ACTIVE
    f = _ORIG["irrigation"]
    if tr is None:
        return f(*a, **k)
    tr.n["irrigation"] += 1
    th = a[13]
    s0 = tr.stor(th, 0.0) if tr.o["ledger"] else 0.0
    r = f(*a, **k)
    if tr.o["ledger"]:
        _ledger(tr, "irrigation", s0, tr.stor(th, 0.0), 0.0, th)
    if tr.o["irr"]:
        try:
            t = int(a[15])
            sched = a[5]
            tr.irr_calls.append(dict(
                method=int(a[0]), SMT=np.array(a[1], dtype=float), AppEff=float(a[2]),
                MaxIrr=float(a[3]), interval=a[4],
                sched_t=(float(sched[t]) if hasattr(sched, "__len__") and len(sched) > t else None),
                depth=float(a[6]), MaxIrrSeason=float(a[7]), stage=a[8], irr_cum0=float(a[9]),
                e_pot=float(a[10]), t_pot=float(a[11]), z_root=float(a[12]),
                th=np.array(th, dtype=float), dap=int(a[14]), t=t, crop=a[16],
                z_top=float(a[18]), gs=bool(a[19]), rain=float(a[20]), runoff=float(a[21]),
                depletion=float(r[0]), taw=float(r[1]), irr_cum1=float(r[2]), Irr=float(r[3]),
            ))
        except Exception as ex:  # signature drift -> inconclusive, not a crash
            tr.errors.append("irrigation tap: " + repr(ex))
    if tr.cur is not None:
        tr.cur["Irr"] = float(r[3])
    return r


def _w_infiltration(*a, **k):
    tr = ACTIVE
    f = _ORIG["infiltration"]
    if tr is None or not tr.o["ledger"]:
        return f(*a, **k)
    tr.n["infiltration"] += 1
    s0 = tr.stor(a[3], a[1])
    dp0 = float(a[10])
    r = f(*a, **k)
    s1 = tr.stor(r[0], r[1])
    _ledger(tr, "infiltration", s0, s1, float(r[4]) - (float(r[2]) - dp0), r[0])
    return r


def _w_capillary_rise(*a, **k):
    tr = ACTIVE
    f = _ORIG["capillary_rise"]
    if tr is None or not tr.o["ledger"]:
        return f(*a, **k)
    tr.n["capillary_rise"] += 1
    nc = a[3]
    s0 = tr.stor(nc.th, nc.surface_storage)
    th_b = np.array(nc.th, dtype=float) if tr.o["cr_detail"] else None
    r = f(*a, **k)
    s1 = tr.stor(r[0].th, r[0].surface_storage)
    extra = None
    if th_b is not None:
        extra = dict(th_b=th_b, th_a=np.array(r[0].th, dtype=float),
                     thfc_adj=np.array(r[0].th_fc_Adj, dtype=float))
    _ledger(tr, "capillary_rise", s0, s1, r[1], r[0].th, extra)
    return r


def _w_soil_evaporation(*a, **k):
    tr = ACTIVE
    f = _ORIG["soil_evaporation"]
    if tr is None or not tr.o["ledger"]:
        return f(*a, **k)
    tr.n["soil_evaporation"] += 1
    s0 = tr.stor(a[22], a[31])
    r = f(*a, **k)
    s1 = tr.stor(r[1], r[5])
    _ledger(tr, "soil_evaporation", s0, s1, -float(r[7]), r[1])
    return r


def _w_transpiration(*a, **k):
    tr = ACTIVE
    f = _ORIG["transpiration"]
    if tr is None or not tr.o["ledger"]:
        return f(*a, **k)
    tr.n["transpiration"] += 1
    nc = a[6]
    s0 = tr.stor(nc.th, nc.surface_storage)
    r = f(*a, **k)
    s1 = tr.stor(r[3].th, r[3].surface_storage)
    _ledger(tr, "transpiration", s0, s1, -float(r[0]) + float(r[4]), r[3].th)
    if tr.cur is not None:
        tr.cur["IrrNet"] = float(r[4])
        tr.cur["Tr_call"] = float(r[0])
    return r


def _w_groundwater_inflow(*a, **k):
    tr = ACTIVE
    f = _ORIG["groundwater_inflow"]
    if tr is None or not tr.o["ledger"]:
        return f(*a, **k)
    tr.n["groundwater_inflow"] += 1
    nc = a[1]
    s0 = tr.stor(nc.th, nc.surface_storage)
    r = f(*a, **k)
    s1 = tr.stor(r[0].th, r[0].surface_storage)
    _ledger(tr, "groundwater_inflow", s0, s1, r[1], r[0].th)
    return r


def _w_biomass(*a, **k):
    tr = ACTIVE
    f = _ORIG["biomass_accumulation"]
    if tr is None or not tr.o["biomass"]:
        return f(*a, **k)
    tr.n["biomass_accumulation"] += 1
    r = f(*a, **k)
    if tr.cur is not None:
        try:
            tr.cur["bio"] = dict(Tr=float(a[7]), TrPot=float(a[8]), et0=float(a[9]),
                                 b0=float(a[5]), b1=float(r[0]), gs=bool(a[10]))
        except Exception as ex:
            tr.errors.append("biomass tap: " + repr(ex))
    return r


def _w_reset(cs, ic, ps, weather, crop):
    tr = ACTIVE
    f = _ORIG["reset"]
    if tr is None:
        return f(cs, ic, ps, weather, crop)
    tr.n["reset"] += 1
    pre = dict(th=np.array(ic.th, dtype=float), pond=float(ic.surface_storage))
    r = f(cs, ic, ps, weather, crop)
    if tr.o["digests"]:
        tr.wdig.append((f"reset@{int(cs.time_step_counter)}", weather_digest(weather)))
    tr.resets.append(dict(t=int(cs.time_step_counter), sc=int(cs.season_counter), pre=pre,
                          th=np.array(r[0].th, dtype=float), pond=float(r[0].surface_storage),
                          off=bool(cs.sim_off_season)))
    return r


PROCESS_WRAPPERS = {
    "pre_irrigation": _w_pre_irrigation, "drainage": _w_drainage,
    "rainfall_partition": _w_rainfall_partition, "irrigation": _w_irrigation,
    "infiltration": _w_infiltration, "capillary_rise": _w_capillary_rise,
    "soil_evaporation": _w_soil_evaporation, "transpiration": _w_transpiration,
    "groundwater_inflow": _w_groundwater_inflow, "biomass_accumulation": _w_biomass,
}
LEDGER_PROCESSES = [
    "pre_irrigation", "drainage", "rainfall_partition", "irrigation", "infiltration",
    "capillary_rise", "soil_evaporation", "transpiration", "groundwater_inflow",
]


# --- ride-along response-function contracts (C17 part 2) -------------------------------

def _contract_wrap(modname, fname, checker):
    import importlib

    mod = importlib.import_module(modname)
    orig = getattr(mod, fname)
    key = f"{modname}.{fname}"
    if key in _ORIG:
        return
    _ORIG[key] = orig

    def w(*a, **k):
        r = orig(*a, **k)
        tr = ACTIVE
        if tr is not None and tr.o["contracts"]:
            tr.n["contract:" + fname] += 1
            try:
                msg = checker(a, k, r)
            except Exception as ex:
                msg = None
                tr.errors.append(f"contract {fname}: {ex!r}")
            if msg and len(tr.contract_viol) < 50:
                tr.contract_viol.append(dict(fn=fname, caller=modname.split(".")[-1], msg=msg,
                                             t=(tr.cur or {}).get("t")))
        return r

    w.__wrapped__ = orig
    setattr(mod, fname, w)


def _chk_water_stress(a, k, r):
    vals = [float(x) for x in r]
    for i, v in enumerate(vals):
        if not (-1e-12 <= v <= 1 + 1e-12):
            return f"coefficient {i} = {v!r} outside [0,1]"
    return None


def _chk_temperature_stress(a, k, r):
    for i, v in enumerate(r):
        v = float(v)
        if not (-1e-12 <= v <= 1 + 1e-12):
            return f"coefficient {i} = {v!r} outside [0,1]"
    return None


def _chk_gdd(a, k, r):
    method, tupp, tbase = a[0], float(a[1]), float(a[2])
    v = float(r)
    if not (-1e-12 <= v <= tupp - tbase + 1e-12):
        return f"gdd {v!r} outside [0,{tupp - tbase}] for Tmax={a[3]} Tmin={a[4]} method={method}"
    return None


def _chk_cc_dev(a, k, r):
    # cc_development(CCo, CCx, CGC, CDC, dt, Mode, CCx0)
    v = float(r)
    ccx = max(float(a[1]), float(a[6])) if len(a) > 6 else float(a[1])
    if not (-1e-12 <= v <= ccx + 1e-9):
        return f"canopy {v!r} outside [0,{ccx}] mode={a[5]} dt={a[4]}"
    return None


def _chk_aeration(a, k, r):
    v = float(r[0])
    if not (-1e-12 <= v <= 1 + 1e-12):
        return f"aeration stress coefficient {v!r} outside [0,1] (aer_days={a[0]!r}, lag={a[1]!r})"
    return None


def install():
    """Install all wrappers (idempotent, per process)."""
    global _INSTALLED
    if _INSTALLED:
        return
    common.use_repo()
    import aquacrop.core as core
    import aquacrop.timestep.run_single_timestep as rst
    import aquacrop.timestep.update_time as ut

    _ORIG["step"] = core.solution_single_time_step
    core.solution_single_time_step = _w_step
    for name, w in PROCESS_WRAPPERS.items():
        _ORIG[name] = getattr(rst, name)
        setattr(rst, name, w)
    _ORIG["reset"] = ut.reset_initial_conditions
    ut.reset_initial_conditions = _w_reset
    for modname in ("aquacrop.solution.canopy_cover", "aquacrop.solution.transpiration",
                    "aquacrop.solution.harvest_index"):
        _contract_wrap(modname, "water_stress", _chk_water_stress)
    _contract_wrap("aquacrop.solution.harvest_index", "temperature_stress", _chk_temperature_stress)
    _contract_wrap("aquacrop.timestep.run_single_timestep", "growing_degree_day", _chk_gdd)
    _contract_wrap("aquacrop.solution.canopy_cover", "cc_development", _chk_cc_dev)
    _contract_wrap("aquacrop.solution.transpiration", "aeration_stress", _chk_aeration)
    _INSTALLED = True


def originals():
    install()
    return _ORIG


# ------------------------------------------------------------------------------------
# I4 weather spy
# ------------------------------------------------------------------------------------

class SpyArray(np.ndarray):
    """ndarray view that logs the keys used to read the *root* weather matrix."""

    _log = None
    _root = False

    def __array_finalize__(self, obj):
        self._log = None
        self._root = False

    def __getitem__(self, key):
        if self._root and self._log is not None:
            self._log(key)
        out = super().__getitem__(key)
        if isinstance(out, SpyArray):
            out = out.view(np.ndarray)
        return out


def spy_on_weather(model, trace):
    base = model._weather
    spy = np.asarray(base).view(SpyArray)
    spy._root = True

    def log(key):
        trace.n["weather_read"] += 1
        cur = trace.cur
        if isinstance(key, (int, np.integer)):
            kind, val = "row", int(key)
        elif isinstance(key, tuple):
            kind, val = "tuple", repr(key)[:60]
        elif isinstance(key, np.ndarray):
            kind, val = "mask", int(key.sum()) if key.dtype == bool else -1
        elif isinstance(key, slice):
            kind, val = "slice", repr(key)
        else:
            kind, val = type(key).__name__, repr(key)[:40]
        trace.reads.append((trace.phase, kind, val, cur is not None))

    spy._log = log
    model._weather = spy
    return spy


# ------------------------------------------------------------------------------------
# I5 write protection
# ------------------------------------------------------------------------------------

def protect(model, trace):
    """Make every parameter array read-only; an in-place write raises at the faulting line."""
    ps = model._param_struct
    prof = ps.Soil.Profile
    n = 0
    for kname in PROFILE_GEOM + PROFILE_HYD + ["th_fc_Adj"]:
        a = getattr(prof, kname, None)
        if isinstance(a, np.ndarray):
            if a.flags.writeable:
                a.flags.writeable = False
            n += 1
    for a in (ps.z_gw, ps.IrrMngt.Schedule, ps.IrrMngt.SMT):
        if isinstance(a, np.ndarray) and a.flags.owndata or isinstance(a, np.ndarray):
            try:
                a.flags.writeable = False
                n += 1
            except ValueError:
                pass
    w = model._weather
    if isinstance(w, np.ndarray):
        try:
            w.flags.writeable = False
            n += 1
        except ValueError:
            pass
    trace.n["protected_arrays"] = n


# ------------------------------------------------------------------------------------
# I8 watchdogs
# ------------------------------------------------------------------------------------

_WD = dict(tool=None, budget=[0], armed=False, codes=[])


def _wd_line(code, line):
    b = _WD["budget"]
    b[0] -= 1
    if b[0] < 0 and _WD["armed"]:
        _WD["armed"] = False
        raise HarnessAbort(f"line budget exhausted in {code.co_name} ({code.co_filename.split('/')[-1]}:{line})")


def watchdog_setup():
    """LINE budget on the code objects that contain loops which can spin (I8b)."""
    if _WD["tool"] is not None or not hasattr(sys, "monitoring"):
        return
    common.use_repo()
    mon = sys.monitoring
    tool = 4
    try:
        mon.use_tool_id(tool, "vf-watchdog")
    except ValueError:
        return
    import aquacrop.initialize.read_model_parameters as rmp
    import aquacrop.initialize.calculate_HIGC as higc
    import aquacrop.initialize.calculate_HI_linear as hil
    import aquacrop.solution.root_development as rd

    codes = [rmp.read_model_parameters.__code__, higc.calculate_HIGC.__code__,
             hil.calculate_HI_linear.__code__, rd.root_development.__code__]
    mon.register_callback(tool, mon.events.LINE, _wd_line)
    for c in codes:
        mon.set_local_events(tool, c, mon.events.LINE)
    _WD["tool"] = tool
    _WD["codes"] = codes


def watchdog_arm(budget):
    _WD["budget"][0] = int(budget)
    _WD["armed"] = True


def watchdog_disarm():
    _WD["armed"] = False
    _WD["budget"][0] = 10 ** 12


class alarm:
    """Wall-clock watchdog (inconclusive when it fires)."""

    def __init__(self, seconds):
        self.s = float(seconds)

    def _fire(self, *_):
        raise HarnessTimeout(f"wall-clock watchdog ({self.s:.0f} s)")

    def __enter__(self):
        self.old = signal.signal(signal.SIGALRM, self._fire)
        signal.setitimer(signal.ITIMER_REAL, self.s)
        return self

    def __exit__(self, *exc):
        signal.setitimer(signal.ITIMER_REAL, 0)
        signal.signal(signal.SIGALRM, self.old)
        return False


# ------------------------------------------------------------------------------------
# I9 floating point trap
# ------------------------------------------------------------------------------------

def fp_callback_for(trace):
    def cb(kind, flag):
        if len(trace.fp) >= 20:
            return
        f = sys._getframe(1)
        where = None
        while f is not None:
            fn = f.f_code.co_filename
            if "/aquacrop/" in fn and "/vf/" not in fn:
                where = f"{fn.split('/aquacrop/')[-1]}:{f.f_lineno}"
                break
            f = f.f_back
        trace.fp.append((kind, where, None if trace.cur is None else trace.cur["t"]))

    return cb


# ------------------------------------------------------------------------------------
# I10 reach map
# ------------------------------------------------------------------------------------

_REACH = dict(tool=None, hits=set(), reported=set())


def reach_setup():
    if _REACH["tool"] is not None or not hasattr(sys, "monitoring"):
        return
    mon = sys.monitoring
    tool = 5
    try:
        mon.use_tool_id(tool, "vf-reach")
    except ValueError:
        return
    prefix = common.REPO + "/aquacrop/"
    hits = _REACH["hits"]

    def cb(code, line):
        fn = code.co_filename
        if fn.startswith(prefix):
            hits.add((fn[len(prefix):], line))
        return mon.DISABLE

    mon.register_callback(tool, mon.events.LINE, cb)
    mon.set_events(tool, mon.events.LINE)
    _REACH["tool"] = tool


def reach_delta():
    new = _REACH["hits"] - _REACH["reported"]
    _REACH["reported"] |= new
    return sorted(new)


def executable_lines(relpath):
    """Statement lines of a repository file (from its compiled code objects)."""
    import os

    path = os.path.join(common.REPO, "aquacrop", relpath)
    with open(path) as fh:
        src = fh.read()
    top = compile(src, path, "exec")
    lines = set()
    stack = [top]
    while stack:
        c = stack.pop()
        for _, _, ln in c.co_lines():
            if ln is not None:
                lines.add(ln)
        for k in c.co_consts:
            if hasattr(k, "co_lines"):
                stack.append(k)
    # only function bodies: module and class bodies run at import time, before monitoring starts
    body = set()
    stack = [k for k in top.co_consts if hasattr(k, "co_lines")]
    while stack:
        c = stack.pop()
        if c.co_flags & 0x1:      # CO_OPTIMIZED: a function, not a class body
            for _, _, ln in c.co_lines():
                if ln is not None and ln != c.co_firstlineno:
                    body.add(ln)
        for k in c.co_consts:
            if hasattr(k, "co_lines"):
                stack.append(k)
    return sorted(body)


def exc_locals(ex):
    """Scalar locals of the innermost aquacrop frame of an exception (witness for aborts)."""
    tb = ex.__traceback__
    fr = None
    while tb is not None:
        fn = tb.tb_frame.f_code.co_filename
        if "/aquacrop/" in fn and "/vf/" not in fn:
            fr = tb.tb_frame
        tb = tb.tb_next
    if fr is None:
        return {}
    out = {}
    for k, v in list(fr.f_locals.items())[:40]:
        if isinstance(v, (bool, int, float, np.integer, np.floating)):
            out[k] = float(v)
    return out


def exc_site(ex):
    """Innermost aquacrop frame of an exception: (module, function, line, text)."""
    tb = traceback.extract_tb(ex.__traceback__)
    rep = [f for f in tb if "/aquacrop/" in f.filename and "/vf/" not in f.filename]
    if not rep:
        return ("<outside>", tb[-1].name if tb else "?", 0, "")
    fr = rep[-1]
    mod = fr.filename.split("/aquacrop/")[-1][:-3].replace("/", ".")
    return (mod, fr.name, fr.lineno, fr.line or "")
