"""Configuration generators (DESIGN.md section 4): every value stays inside the domain
"valid configuration" fixed there, so that an alarm cannot come from feeding the model
something its documentation excludes.

``config(rng, **profile)`` composes a spec from independent factors.  ``profile`` shifts the
emphasis (which crops, how many seasons, how hostile the soil-water regime is ...); the
defaults give the general-purpose mix.
"""
import datetime as dt
import math

import numpy as np

from . import common, weather as W


def rng_for(seed, prop, i):
    pid = int(prop[1:]) if isinstance(prop, str) else int(prop)
    return np.random.default_rng(np.random.SeedSequence([int(seed), pid, int(i)]))


def pick(rng, seq):
    return seq[int(rng.integers(0, len(seq)))]


def chance(rng, p):
    return bool(rng.random() < p)


def fmt(d):
    return d.strftime("%Y/%m/%d")


def first_planting(spec):
    """First planting date on/after the start of the window."""
    from . import spec as S_
    st = S_.d(spec["start"])
    m, dd = [int(x) for x in spec["crop"]["planting"].split("/")]
    p0 = dt.date(st.year, m, dd)
    return p0 if p0 >= st else dt.date(st.year + 1, m, dd)


def et0_spike(rng, spec):
    """Add one single day of extreme reference ET inside the first season (synthetic weather)."""
    p0 = first_planting(spec)
    L = crop_len_days(spec["crop"]["name"])
    spec["weather"].setdefault("episodes", []).append(
        {"var": "ReferenceET", "from": fmt(p0 + dt.timedelta(days=int(rng.integers(5, max(6, L - 10))))),
         "days": 1, "value": float(pick(rng, [18.0, 25.0, 40.0]))})
    return True


def low_et0(rng, spec):
    """A few in-season days with a reference ET below the 0.1 mm/day at which prepare_weather
    clips files (a table built by the user is not clipped): cold, foggy, calm days."""
    p0 = first_planting(spec)
    L = crop_len_days(spec["crop"]["name"])
    eps = spec["weather"].setdefault("episodes", [])
    for _ in range(int(rng.integers(1, 4))):
        eps.append({"var": "ReferenceET", "from": fmt(p0 + dt.timedelta(days=int(rng.integers(20, max(21, L - 10))))),
                    "days": int(rng.integers(1, 4)), "value": float(pick(rng, [0.03, 0.05, 0.08]))})
    spec["weather"]["et_floor"] = 0.02
    return True


def add_years(d, n):
    try:
        return d.replace(year=d.year + n)
    except ValueError:
        return d.replace(year=d.year + n, day=28)


# ------------------------------------------------------------------------------------
# crops
# ------------------------------------------------------------------------------------

def crop_len_days(name):
    """Rough season length in days (for sizing windows only)."""
    cp = common.crop_catalogue()[name]
    v = cp.get("MaturityCD")
    return int(v) if v else 140


# regimes in which a thermal-time crop normally matures within a year
WARM = ["warm", "humid", "monsoon", "hot", "arid"]
ALL_REGIMES = [r for r in W.REGIMES if r != "polar"]     # "polar" only where a check asks for it


def usable_crops():
    """Built-in crops that define a dry-matter fraction (the four that do not - defect D8 -
    divide by zero in the yield calculation and are exercised by C05/C06/C16 only)."""
    return [c for c, v in common.crop_catalogue().items() if v.get("YldWC")]


def crop_spec(rng, name=None, planting=None, flags=False, harvest_early=False, pool=None):
    cat = common.crop_catalogue()
    name = name or pick(rng, pool or usable_crops())
    if planting is None:
        m = int(rng.integers(1, 13))
        dd = int(rng.integers(1, 29))
        planting = f"{m:02d}/{dd:02d}"
    kw = {}
    if flags:
        if chance(rng, 0.3):
            kw["ETadj"] = int(rng.integers(0, 2))
        if chance(rng, 0.25):
            kw["PlantMethod"] = int(rng.integers(0, 2))
        if chance(rng, 0.2):
            kw["GDDmethod"] = int(rng.integers(1, 4))
        if chance(rng, 0.2):
            kw["PolHeatStress"] = int(rng.integers(0, 2))
        if chance(rng, 0.2):
            kw["PolColdStress"] = int(rng.integers(0, 2))
        if chance(rng, 0.2):
            kw["TrColdStress"] = int(rng.integers(0, 2))
        if chance(rng, 0.15):
            kw["Determinant"] = int(rng.integers(0, 2))
    sp = {"name": name, "planting": planting, "harvest": None, "kw": kw}
    if harvest_early:
        # a user-supplied latest harvest date 30..(len-5) days after planting
        L = crop_len_days(name)
        m, dd = [int(x) for x in planting.split("/")]
        off = int(rng.integers(30, max(31, L - 5)))
        h = dt.date(2001, m, dd) + dt.timedelta(days=off)
        if not (h.month == 2 and h.day == 29):
            sp["harvest"] = f"{h.month:02d}/{h.day:02d}"
    return sp


# ------------------------------------------------------------------------------------
# soils
# ------------------------------------------------------------------------------------

def reachable_depth(dz):
    """Depth the deepening loop can reach: a compartment grows by 0.1 m while < 0.25 m."""
    tot = 0.0
    for x in dz:
        x = round(float(x), 2)
        while x < 0.25:
            x = round(x + 0.1, 2)
        tot += x
    return round(tot, 2)


DZ_CHOICES = [
    [0.1] * 12, [0.1] * 12, [0.1] * 12,
    [0.05] * 24, [0.15] * 10, [0.2] * 8, [0.1] * 20, [0.05] * 6 + [0.1] * 6 + [0.2] * 4,
    [0.1, 0.1, 0.15, 0.15, 0.2, 0.2, 0.2, 0.2, 0.2, 0.2], [0.05, 0.1, 0.15, 0.2, 0.2, 0.2, 0.2, 0.2, 0.2],
    [0.1] * 6 + [0.15] * 5 + [0.2], [0.12] * 12, [0.08] * 18,
]

HYD_LIBRARY = [
    # (thWP, thFC, thS, Ksat) plausible layers incl. low-conductivity ones
    (0.39, 0.54, 0.55, 35.0), (0.23, 0.39, 0.50, 125.0), (0.10, 0.30, 0.50, 500.0),
    (0.15, 0.31, 0.46, 500.0), (0.08, 0.16, 0.38, 2200.0), (0.06, 0.13, 0.36, 3000.0),
    (0.27, 0.39, 0.50, 35.0), (0.20, 0.32, 0.47, 225.0), (0.10, 0.22, 0.41, 1200.0),
    (0.32, 0.50, 0.54, 15.0), (0.39, 0.54, 0.55, 2.0), (0.30, 0.45, 0.52, 8.0),
    (0.1234, 0.2871, 0.4519, 310.5), (0.2017, 0.3344, 0.4702, 61.3),
]


def soil_spec(rng, zmax, p_custom=0.3, p_dz=0.25, p_opts=0.35, low_ksat=False, pen=False,
              names=None, allow_texture=True, zgrid_off=False):
    """A soil spec whose profile can be deepened to ``zmax + 0.1``."""
    kw = {}
    if chance(rng, p_custom):
        for _ in range(50):
            dz = [round(x, 2) for x in pick(rng, DZ_CHOICES)]
            if reachable_depth(dz) >= zmax + 0.1:
                break
        else:
            dz = [0.1] * 12
        nl = int(rng.integers(1, 4))
        depth = round(sum(dz), 2)
        layers = []
        # layer boundaries on compartment boundaries (the documented way of building layers)
        bounds = np.round(np.cumsum(dz), 2).tolist()
        cut = sorted(set(float(pick(rng, bounds[:-1])) for _ in range(nl - 1))) if len(bounds) > 1 else []
        tops = [0.0] + cut
        bots = cut + [depth]
        for a, b in zip(tops, bots):
            th = round(b - a, 2)
            if b == depth:
                th = round(th + float(pick(rng, [0.0, 0.0, 0.5, 2.0])), 2)
            L = {"thickness": th}
            if allow_texture and chance(rng, 0.3):
                clay = float(rng.integers(5, 56))
                sand = float(rng.integers(5, int(96 - clay)))
                L.update(sand=sand, clay=clay, om=float(pick(rng, [0.5, 1.5, 2.5, 4.0])))
            else:
                lib = HYD_LIBRARY
                if low_ksat and chance(rng, 0.6):
                    lib = [h for h in HYD_LIBRARY if h[3] <= 35.0]
                wp, fc, s, k = pick(rng, lib)
                L.update(thWP=wp, thFC=fc, thS=s, Ksat=k)
            L["pen"] = float(pick(rng, [100, 100, 100, 90, 60, 30, 10])) if pen else 100.0
            layers.append(L)
        kw["dz"] = dz
        s = {"type": "custom", "kw": kw, "layers": layers}
        kw["cn"] = float(pick(rng, [46, 61, 72, 77, 85]))
        if chance(rng, 0.2):
            kw["calc_cn"] = 1
    else:
        name = pick(rng, names or common.SOILS)
        s = {"type": name, "kw": kw}
        if name != "ac_TunisLocal" and chance(rng, p_dz):
            for _ in range(50):
                dz = [round(x, 2) for x in pick(rng, DZ_CHOICES)]
                if reachable_depth(dz) >= zmax + 0.1 and (name != "Paddy" or sum(dz) > 0.6):
                    kw["dz"] = dz
                    break
    if chance(rng, p_opts):
        if chance(rng, 0.4):
            kw["adj_cn"] = int(rng.integers(0, 2))
        if chance(rng, 0.5):
            grid = [0.1, 0.2, 0.3, 0.4, 0.5, 0.6]
            off = [0.05, 0.12, 0.15, 0.25, 0.33, 0.35, 0.45, 0.55]
            kw["z_cn"] = float(pick(rng, off if (zgrid_off or chance(rng, 0.5)) else grid))
        if chance(rng, 0.4):
            kw["z_germ"] = float(pick(rng, [0.1, 0.15, 0.2, 0.25, 0.3, 0.35, 0.5]))
        if chance(rng, 0.2):
            kw["adj_rew"] = 0
        if chance(rng, 0.2):
            kw["evap_z_max"] = float(pick(rng, [0.2, 0.3, 0.45, 0.6]))
        if chance(rng, 0.15):
            kw["z_top"] = float(pick(rng, [0.1, 0.2, 0.3]))
        if chance(rng, 0.15):
            kw["z_res"] = float(pick(rng, [0.5, 1.0, 1.5]))     # documented "depth of restrictive layer"
        # "default program properties" of the soil that a user may still set
        for name, vals, p_ in (("kex", [0.9, 1.1, 1.25], 0.1), ("fwcc", [30, 50, 70], 0.1), ("f_evap", [2, 4, 7], 0.1),
                               ("f_wrel_exp", [0.2, 0.4, 0.6], 0.08), ("fshape_cr", [8, 16, 24], 0.1),
                               ("evap_z_min", [0.1, 0.15, 0.2], 0.1), ("evap_z_surf", [0.03, 0.04, 0.06], 0.08)):
            if chance(rng, p_):
                kw[name] = pick(rng, vals)
        if "evap_z_min" in kw and kw.get("evap_z_max", 0.3) < kw["evap_z_min"]:
            kw["evap_z_max"] = max(0.3, kw["evap_z_min"])
        if chance(rng, 0.1):
            # an evaporation layer that cannot expand
            kw["evap_z_min"] = kw["evap_z_max"] = float(pick(rng, [0.15, 0.2, 0.3]))
    return s


def soil_layers(s):
    if s["type"] == "custom":
        return len(s["layers"])
    return common.SOIL_LAYERS.get(s["type"], 1)


def layer_hyd(s):
    """[(wp, fc, sat)] per layer, for numeric initial contents (built-in values)."""
    builtin = {
        "Clay": [(0.39, 0.54, 0.55)], "ClayLoam": [(0.23, 0.39, 0.5)], "Default": [(0.1, 0.3, 0.5)],
        "Loam": [(0.15, 0.31, 0.46)], "LoamySand": [(0.08, 0.16, 0.38)], "Sand": [(0.06, 0.13, 0.36)],
        "SandyClay": [(0.27, 0.39, 0.5)], "SandyClayLoam": [(0.2, 0.32, 0.47)],
        "SandyLoam": [(0.1, 0.22, 0.41)], "Silt": [(0.09, 0.33, 0.43)],
        "SiltClayLoam": [(0.23, 0.44, 0.52)], "SiltLoam": [(0.13, 0.33, 0.46)],
        "SiltClay": [(0.32, 0.5, 0.54)], "Paddy": [(0.32, 0.5, 0.54), (0.39, 0.54, 0.55)],
        "ac_TunisLocal": [(0.24, 0.4, 0.5), (0.11, 0.33, 0.46)],
    }
    if s["type"] != "custom":
        return builtin[s["type"]]
    out = []
    for L in s["layers"]:
        if "sand" in L:
            out.append(None)
        else:
            out.append((L["thWP"], L["thFC"], L["thS"]))
    return out


def layer_bounds(s):
    """Depths of the layer boundaries (m) of a soil spec."""
    if s["type"] == "custom":
        out, z = [], 0.0
        for L in s["layers"][:-1]:
            z = round(z + L["thickness"], 2)
            out.append(z)
        return out
    return {"Paddy": [0.5], "ac_TunisLocal": [0.3]}.get(s["type"], [])


def iwc_depth_spec(rng, s, kind=None, bottom=False):
    """Initial water content given at depth points (>= 1 cm away from layer boundaries).
    bottom=True: one run in four also gives a point exactly at the bottom of the compartment grid
    as specified (the bottom of the profile unless the crop's rooting depth makes the model deepen
    it) - no layer boundary, so the owning layer is not in doubt."""
    bounds = layer_bounds(s)
    npts = int(rng.integers(1, 5))
    pts = set()
    while len(pts) < npts:
        z = round(float(rng.uniform(0.02, 2.2)), 2)
        if all(abs(z - b) >= 0.015 for b in bounds):
            pts.add(z)
    if bottom and chance(rng, 0.25):
        dz = s.get("kw", {}).get("dz") or ([0.1] * 6 + [0.15] * 5 + [0.2] if s["type"] == "ac_TunisLocal" else [0.1] * 12)
        zb = round(float(sum(dz)), 2)
        if all(abs(zb - b) >= 0.015 for b in bounds):
            pts.add(zb)
    depths = sorted(pts)
    kind = kind or pick(rng, ["Prop", "Pct", "Num"])
    if kind == "Prop":
        vals = [pick(rng, ["FC", "WP", "SAT"]) for _ in depths]
    elif kind == "Pct":
        vals = [float(pick(rng, [0, 10, 30, 50, 80, 100])) for _ in depths]
    else:
        hyd = [h for h in layer_hyd(s) if h is not None]
        if len(hyd) != soil_layers(s):
            kind, vals = "Pct", [float(pick(rng, [0, 30, 60, 100])) for _ in depths]
        else:
            lo, hi = max(h[0] for h in hyd), min(h[2] for h in hyd)
            vals = [round(lo + float(rng.random()) * (hi - lo), 3) for _ in depths]
    return {"wc_type": kind, "method": "Depth", "depth_layer": depths, "value": vals}


def iwc_spec(rng, s, kinds=("FC", "WP", "SAT", "Pct", "Num"), wet=False, dry=False):
    nl = soil_layers(s)
    layers = list(range(1, nl + 1))
    kind = pick(rng, list(kinds))
    if wet:
        kind = pick(rng, ["SAT", "SAT", "FC"])
    if dry:
        kind = pick(rng, ["WP", "WP", "Pct"])
    def out(wc_type, vals):
        ls, vs = list(layers), list(vals)
        if nl > 1 and chance(rng, 0.25):
            # (layer, value) pairs may be listed in any order
            order = [int(x) for x in rng.permutation(nl)]
            ls, vs = [ls[i] for i in order], [vs[i] for i in order]
        return {"wc_type": wc_type, "method": "Layer", "depth_layer": ls, "value": vs}

    if kind in ("FC", "WP", "SAT"):
        vals = [kind] * nl
        if nl > 1 and chance(rng, 0.3):
            vals = [pick(rng, ["FC", "WP", "SAT"]) for _ in layers]
        return out("Prop", vals)
    if kind == "Pct":
        v = [float(pick(rng, [0, 10, 30, 50, 80, 100])) for _ in layers]
        if dry:
            v = [float(pick(rng, [0, 5, 15, 40])) for _ in layers]
        return out("Pct", v)
    hyd = layer_hyd(s)
    if any(h is None for h in hyd):
        return out("Prop", ["FC"] * nl)
    v = [round(h[0] + float(rng.random()) * (h[2] - h[0]), 3) for h in hyd]
    return out("Num", v)


# ------------------------------------------------------------------------------------
# irrigation / field management / groundwater / CO2
# ------------------------------------------------------------------------------------

def irr_spec(rng, start, end, methods=(0, 1, 2, 3, 4, 5), limits=0.35, planting=None):
    m = int(pick(rng, list(methods)))
    kw = {}
    sch = None
    if m == 1:
        kw["SMT"] = [float(x) for x in rng.choice([20, 40, 60, 80, 100], 4)]
    elif m == 2:
        kw["IrrInterval"] = int(rng.integers(1, 15))
    elif m == 3:
        n = (end - start).days
        k = int(rng.integers(0, 25))
        offs = sorted(set(int(x) for x in rng.integers(-20, n + 20, k)))
        if planting is not None and chance(rng, 0.4):
            # hit day 1 of a season and a few in-season days on purpose
            y = start.year
            for yy in range(y, end.year + 1):
                try:
                    pdte = dt.date(yy, planting[0], planting[1])
                except ValueError:
                    continue
                for o in (0, 1, 7, 30, 31, 60):
                    offs.append((pdte - start).days + o)
            offs = sorted(set(offs))
        sch = [[fmt(start + dt.timedelta(days=o)), float(pick(rng, [0.0, 5.0, 10.0, 25.0, 60.0]))]
               for o in offs]
    elif m == 4:
        kw["NetIrrSMT"] = float(pick(rng, [30, 50, 80, 100]))
    elif m == 5:
        kw["depth"] = float(pick(rng, [0, 2, 8, 30]))
    if chance(rng, 0.5):
        kw["AppEff"] = float(pick(rng, [50, 62.5, 70, 87.5, 90, 100]))
    if chance(rng, limits):
        kw["MaxIrr"] = float(pick(rng, [0, 5, 15, 40]))
    if chance(rng, limits):
        kw["MaxIrrSeason"] = float(pick(rng, [0, 50, 200, 600]))
    if chance(rng, 0.3):
        kw["WetSurf"] = float(pick(rng, [20, 50, 100]))
    return {"method": m, "kw": kw, "schedule": sch}


def fm_spec(rng, p_mulch=0.25, p_bunds=0.25, p_inhb=0.15, p_cn=0.2, cn=None):
    fm = {}
    if chance(rng, p_mulch):
        fm.update(mulches=True, mulch_pct=float(pick(rng, [0, 30, 80, 100])),
                  f_mulch=float(pick(rng, [0, 0.5, 1.0])))
    if chance(rng, p_bunds):
        fm.update(bunds=True, z_bund=float(pick(rng, [0.05, 0.1, 0.15, 0.3])),
                  bund_water=float(pick(rng, [0, 20, 100, 500])))
    elif chance(rng, 0.2):
        # bund settings left in place while the bunds themselves are switched off
        fm.update(bunds=False, z_bund=float(pick(rng, [0.1, 0.25])), bund_water=float(pick(rng, [0, 50])))
    if "mulches" not in fm and chance(rng, 0.1):
        fm.update(mulches=False, mulch_pct=float(pick(rng, [50, 100])), f_mulch=0.5)
    if chance(rng, p_inhb):
        fm.update(sr_inhb=True)
    if chance(rng, p_cn):
        pct = float(pick(rng, [-30, -10, 10, 25]))
        if cn is None or cn * (1 + pct / 100) <= 100:
            fm.update(curve_number_adj=True, curve_number_adj_pct=pct)
    elif chance(rng, 0.15):
        # a percentage left in place while the adjustment itself is switched off
        fm.update(curve_number_adj=False, curve_number_adj_pct=float(pick(rng, [-30, 25, 40])))
    return fm


def gw_spec(rng, start, end, depths=(0.3, 0.8, 1.5, 2.5, 6.0, 30.0), p_multi=0.4):
    if chance(rng, p_multi):
        n = int(rng.integers(2, 6))
        span = (end - start).days
        offs = [0] + sorted(set(int(x) for x in rng.integers(1, max(2, span), n - 1)))
        if len(offs) > 2 and chance(rng, 0.2):
            offs = offs[1:]     # the first observation lies after the start date
        method = pick(rng, ["Constant", "Variable"])
        base = float(pick(rng, list(depths)))
        vals = [round(max(0.1, base + float(rng.normal(0, 0.6))), 2) for _ in offs]
        for j in range(1, len(vals)):
            if chance(rng, 0.3):
                vals[j] = vals[j - 1]       # a plateau: the table did not move between two observations
        if chance(rng, 0.25):
            vals[0] = max(1, int(round(vals[0])))     # a whole number of metres, typed as an int
        if chance(rng, 0.3):
            # a monitoring record that is longer than the simulated window
            if chance(rng, 0.6):
                offs = [-int(rng.integers(5, 400))] + offs
                vals = [round(max(0.1, base + float(rng.normal(0, 0.6))), 2)] + vals
            if chance(rng, 0.6):
                offs = offs + [span + int(rng.integers(5, 400))]
                vals = vals + [round(max(0.1, base + float(rng.normal(0, 0.6))), 2)]
        dates = [fmt(start + dt.timedelta(days=o)) for o in offs]
        if len(dates) > 2 and chance(rng, 0.25):
            # the observations need not be listed in chronological order
            order = [int(x) for x in rng.permutation(len(dates))]
            dates, vals = [dates[j] for j in order], [vals[j] for j in order]
        return {"method": method, "dates": dates, "values": vals}
    v = float(pick(rng, list(depths)))
    return {"method": "Constant", "dates": [fmt(start)], "values": [int(v) if (v >= 1 and v == int(v) and chance(rng, 0.5)) else v]}


def co2_spec(rng, y0, y1):
    r = rng.random()
    if r < 0.6:
        return None
    if r < 0.66:
        return {"constant_auto": True}
    if r < 0.8:
        c = {"constant": float(pick(rng, [250, 369.41, 400, 550, 800, 2500]))}
        if rng.random() < 0.25:
            c["ref"] = float(pick(rng, [330.0, 400.0, 420.0]))   # a reference other than the year-2000 default
        return c
    a = float(pick(rng, [300, 369.41, 420]))
    if rng.random() < 0.4:
        # sparse series (knots every 5 years, like projections): years in between are interpolated
        ya = (y0 // 5) * 5 - 5
        return {"series": [[y, round(a + 2.1 * (y - ya) + (7.0 if (y // 5) % 2 else 0.0), 2)]
                           for y in range(ya, y1 + 16, 5)]}
    return {"series": [[y, round(a + 2.1 * (y - (y0 - 1)), 2)] for y in range(y0 - 1, y1 + 2)]}


# ------------------------------------------------------------------------------------
# window
# ------------------------------------------------------------------------------------

def window(rng, crop, seasons=(1, 3), pre=(0, 0, 5, 40), year_range=(1985, 2015),
           end_shape=None, file_span=None):
    """Start/end dates around the planting date.  Returns (start, end, first planting)."""
    m, dd = [int(x) for x in crop["planting"].split("/")]
    L = crop_len_days(crop["name"])
    ns = int(rng.integers(seasons[0], seasons[1] + 1))
    lo_y, hi_y = year_range
    if file_span is not None:
        lo_y = file_span[0].year + 1
        hi_y = max(lo_y, file_span[1].year - ns - 2)
    y0 = int(rng.integers(lo_y, hi_y + 1))
    p0 = dt.date(y0, m, dd)
    start = p0 - dt.timedelta(days=int(pick(rng, list(pre))))
    shape = end_shape or pick(rng, ["after", "after", "mid", "anniv", "long", "feb29"])
    last_p = add_years(p0, ns - 1)
    if shape == "after":
        end = last_p + dt.timedelta(days=L + int(rng.integers(10, 120)))
    elif shape == "mid":
        end = last_p + dt.timedelta(days=int(rng.integers(5, max(6, L - 5))))
    elif shape == "anniv":
        end = add_years(p0, ns) + dt.timedelta(days=int(pick(rng, [-1, 0, 1])))
    elif shape == "feb29":
        floor_ = last_p + dt.timedelta(days=L + 40)
        yy = floor_.year
        while not (yy % 4 == 0 and (yy % 100 != 0 or yy % 400 == 0)) or dt.date(yy, 2, 29) < floor_:
            yy += 1
        end = dt.date(yy, 2, 29)
    else:
        end = last_p + dt.timedelta(days=L + int(rng.integers(120, 400)))
    if end <= start + dt.timedelta(days=2):
        end = start + dt.timedelta(days=10)
    # A season that may span New Year is only scheduled by the model when its harvest year
    # is inside the window; a window that ends in the planting year of such a crop contains
    # no schedulable season (defect D12, exercised by C16's edge class only).
    thermal = common.crop_catalogue()[crop["name"]]["CalendarType"] == 2
    margin = 230 if thermal else 65      # a thermal crop's season length depends on the weather
    if end.year == p0.year and (p0 + dt.timedelta(days=L + margin)).year > p0.year:
        end = dt.date(p0.year + 1, 1, int(rng.integers(2, 29)))
    if file_span is not None and end > file_span[1]:
        end = file_span[1]
    return start, end, p0


# ------------------------------------------------------------------------------------
# full configuration
# ------------------------------------------------------------------------------------

def weather_spec(rng, crop_name, hostile=False, p_file=0.3, regimes=None):
    cat = common.crop_catalogue()
    gdd = cat[crop_name]["CalendarType"] == 2
    if chance(rng, p_file):
        name = pick(rng, common.CLIMATE_FILES)
        if gdd:
            name = pick(rng, ["hyderabad_climate.txt", "tunis_climate.txt", "cordoba_climate.txt",
                              "champion_climate.txt"])
        w = {"kind": "file", "name": name}
        if chance(rng, 0.3):
            w["rain_mult"] = float(pick(rng, [0, 0.1, 3, 8]))
        if chance(rng, 0.15) and not gdd:
            w["temp_add"] = float(pick(rng, [-8, 8]))
        if chance(rng, 0.15):
            w["et_mult"] = float(pick(rng, [0.5, 2]))
        return w
    reg = pick(rng, regimes or (WARM if gdd else ALL_REGIMES))
    w = {"kind": "synth", "seed": int(rng.integers(0, 2 ** 31 - 1)), "regime": reg}
    if chance(rng, 0.2):
        w["south"] = True
    params = {}
    if hostile or chance(rng, 0.3):
        params["pstorm"] = float(pick(rng, [0.0, 0.01, 0.03, 0.08]))
    if chance(rng, 0.15):
        params["pwet"] = 0.0  # multi-year drought
        params["pstorm"] = 0.0
    if params:
        w["params"] = params
    return w


def add_episodes(rng, w, p0, L):
    """Hostile dated episodes around the first season."""
    eps = []
    if chance(rng, 0.25):
        eps.append({"var": "Precipitation", "from": fmt(p0 + dt.timedelta(days=int(rng.integers(0, L)))),
                    "days": int(rng.integers(1, 4)), "value": float(pick(rng, [80, 150, 300]))})
    if chance(rng, 0.15):
        eps.append({"var": "frost", "from": fmt(p0 + dt.timedelta(days=int(L * 0.45))),
                    "days": int(rng.integers(2, 10)), "value": float(pick(rng, [-6, -2, 3]))})
    if chance(rng, 0.15):
        eps.append({"var": "heat", "from": fmt(p0 + dt.timedelta(days=int(L * 0.5))),
                    "days": int(rng.integers(2, 10)), "value": float(pick(rng, [41, 47, 55]))})
    if chance(rng, 0.1):
        eps.append({"var": "ReferenceET", "from": fmt(p0 + dt.timedelta(days=int(rng.integers(0, L)))),
                    "days": int(rng.integers(3, 30)), "value": float(pick(rng, [0.1, 20.0]))})
    if chance(rng, 0.2):
        # one single day of extreme evaporative demand (far outside the spread of the record)
        eps.append({"var": "ReferenceET", "from": fmt(p0 + dt.timedelta(days=int(rng.integers(0, L)))),
                    "days": 1, "value": float(pick(rng, [18.0, 25.0, 40.0]))})
    if eps:
        w["episodes"] = eps


def config(rng, crops=None, seasons=(1, 3), off_season=None, methods=(0, 1, 2, 3, 4, 5),
           p_gw=0.25, p_custom=0.3, p_fm=1.0, p_bunds=0.25, p_mulch=0.25, hostile=False,
           pen=False, flags=False, p_file=0.3, p_co2=0.4, p_ffm=0.3, pre=(0, 0, 5, 40),
           end_shape=None, low_ksat=False, gw_depths=(0.3, 0.8, 1.5, 2.5, 6.0, 30.0),
           harvest_early=0.0, iwc_kinds=("FC", "WP", "SAT", "Pct", "Num"), soil_names=None,
           planting=None, regimes=None, wet=False, dry=False, p_dz=0.25, zgrid_off=False,
           limits=0.35, year_range=(1985, 2015)):
    cat = common.crop_catalogue()
    crop = crop_spec(rng, pool=crops, planting=planting, flags=flags,
                     harvest_early=chance(rng, harvest_early))
    zmax = float(cat[crop["name"]]["Zmax"])
    w = weather_spec(rng, crop["name"], hostile=hostile, p_file=p_file, regimes=regimes)
    span = W.file_span(w["name"]) if w["kind"] == "file" else None
    if span is not None and (span[1].year - span[0].year) < seasons[1] + 4:
        seasons = (seasons[0], max(seasons[0], min(seasons[1], span[1].year - span[0].year - 4)))
    start, end, p0 = window(rng, crop, seasons=seasons, pre=pre, end_shape=end_shape,
                            file_span=span, year_range=year_range)
    if w["kind"] == "synth" and (hostile or chance(rng, 0.3)):
        add_episodes(rng, w, p0, crop_len_days(crop["name"]))
    soil = soil_spec(rng, zmax, p_custom=p_custom, low_ksat=low_ksat or hostile, pen=pen,
                     names=soil_names, p_dz=p_dz, zgrid_off=zgrid_off)
    sp = {
        "start": fmt(start), "end": fmt(end),
        "off_season": chance(rng, 0.3) if off_season is None else bool(off_season),
        "weather": w, "soil": soil, "crop": crop,
        "iwc": iwc_spec(rng, soil, kinds=iwc_kinds, wet=wet and chance(rng, 0.6),
                        dry=dry and chance(rng, 0.6)),
        "irr": irr_spec(rng, start, end, methods=methods, limits=limits,
                        planting=[int(x) for x in crop["planting"].split("/")]),
    }
    cn = soil["kw"].get("cn")
    if cn is None and soil["type"] != "custom":
        cn = 77  # the largest built-in curve number
    if chance(rng, p_fm):
        sp["fm"] = fm_spec(rng, p_mulch=p_mulch, p_bunds=p_bunds, cn=cn)
    if chance(rng, p_ffm):
        sp["ffm"] = fm_spec(rng, p_mulch=p_mulch, p_bunds=p_bunds * 0.6, cn=cn)
    if chance(rng, p_gw):
        sp["gw"] = gw_spec(rng, start, end, depths=gw_depths)
    if chance(rng, p_co2):
        c = co2_spec(rng, start.year, end.year)
        if c:
            sp["co2"] = c
    return sp
