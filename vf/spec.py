"""Configuration specs (plain JSON) <-> the user objects handed to ``AquaCropModel``.

A spec is self-contained: replaying it needs neither the seed nor the generator.
"""
import copy
import datetime as dt
import hashlib
import json

import numpy as np
import pandas as pd

from . import common, weather


def d(s):
    return weather._d(s)


def ds(x):
    return x.strftime("%Y/%m/%d")


def digest(obj):
    return hashlib.blake2b(
        json.dumps(obj, sort_keys=True, default=str).encode(), digest_size=8
    ).hexdigest()


def n_layers(spec):
    s = spec["soil"]
    if s["type"] == "custom":
        return len(s["layers"])
    return common.SOIL_LAYERS.get(s["type"], 1)


def weather_frame(spec):
    lo = d(spec["start"]) - dt.timedelta(days=int(spec.get("pad_before", 0)))
    hi = d(spec["end"]) + dt.timedelta(days=int(spec.get("pad_after", 0)))
    w = weather.frame(spec["weather"], lo, hi)
    gap = spec.get("pad_gap")
    if gap:
        # records *outside* the window need not be contiguous (a 365-day source without 29 Feb,
        # files joined with a hole): drop some days of the padding, never of the window
        import pandas as pd

        s0, e0 = pd.Timestamp(d(spec["start"])), pd.Timestamp(d(spec["end"]))
        drop = set()
        for off in gap.get("before", []):
            drop.add(s0 - pd.Timedelta(days=int(off)))
        for off in gap.get("after", []):
            drop.add(e0 + pd.Timedelta(days=int(off)))
        drop = {x for x in drop if x < s0 or x > e0}
        w = w[~w["Date"].isin(list(drop))].reset_index(drop=True)
    return w


def build_soil(s):
    common.use_repo()
    from aquacrop import Soil

    kw = dict(s.get("kw", {}))
    if "dz" in kw:
        kw["dz"] = list(kw["dz"])
    soil = Soil(s["type"], **kw)
    if s["type"] == "custom":
        for L in s["layers"]:
            if "sand" in L:
                soil.add_layer_from_texture(
                    L["thickness"], L["sand"], L["clay"], L["om"], L.get("pen", 100)
                )
            else:
                soil.add_layer(
                    L["thickness"], L["thWP"], L["thFC"], L["thS"], L["Ksat"], L.get("pen", 100)
                )
    return soil


def build(spec, weather_df=None):
    """Fresh user objects for one model.  Returns a dict of AquaCropModel kwargs."""
    common.use_repo()
    from aquacrop import (
        CO2, Crop, FieldMngt, GroundWater, InitialWaterContent, IrrigationManagement,
    )

    w = weather_frame(spec) if weather_df is None else weather_df
    soil = build_soil(spec["soil"])
    c = spec["crop"]
    crop = Crop(c["name"], planting_date=c["planting"], harvest_date=c.get("harvest"),
                **copy.deepcopy(c.get("kw", {})))
    i = spec.get("iwc") or {}
    iwc = InitialWaterContent(
        wc_type=i.get("wc_type", "Prop"), method=i.get("method", "Layer"),
        depth_layer=list(i.get("depth_layer", [1])), value=list(i.get("value", ["FC"])),
    )
    kw = dict(
        sim_start_time=spec["start"], sim_end_time=spec["end"], weather_df=w, soil=soil,
        crop=crop, initial_water_content=iwc, off_season=bool(spec.get("off_season", False)),
    )
    irr = spec.get("irr")
    if irr is not None:
        ikw = copy.deepcopy(irr.get("kw", {}))
        if irr["method"] == 3 and irr.get("schedule") is not None:
            sch = irr["schedule"]
            ikw["Schedule"] = pd.DataFrame(
                {"Date": pd.to_datetime([x[0].replace("/", "-") for x in sch]),
                 "Depth": [float(x[1]) for x in sch]}
            ) if sch else pd.DataFrame(columns=["Date", "Depth"])
        if ikw.pop("SMT_as_array", False) and "SMT" in ikw:
            ikw["SMT"] = np.array(ikw["SMT"], dtype=float)      # users do pass thresholds as arrays
        kw["irrigation_management"] = IrrigationManagement(irr["method"], **ikw)
    if spec.get("fm") is not None:
        kw["field_management"] = FieldMngt(**spec["fm"])
    if spec.get("ffm") is not None:
        kw["fallow_field_management"] = FieldMngt(**spec["ffm"])
    gw = spec.get("gw") or spec.get("gw_off")      # "gw_off": a GroundWater object with water_table='N'
    if gw is not None:
        kw["groundwater"] = GroundWater(
            water_table=("N" if gw.get("switched_off") else "Y"), method=gw.get("method", "Constant"),
            dates=list(gw["dates"]), values=list(gw["values"]),
        )
    co2 = spec.get("co2")
    if co2 is not None:
        ref = {"ref_concentration": float(co2["ref"])} if "ref" in co2 else {}
        if "constant" in co2:
            kw["co2_concentration"] = CO2(constant_conc=True,
                                          current_concentration=float(co2["constant"]), **ref)
        elif "series" in co2:
            df = pd.DataFrame(co2["series"], columns=["year", "ppm"]).astype(
                {"year": int, "ppm": float})
            kw["co2_concentration"] = CO2(co2_data=df, **ref)
        elif co2.get("constant_auto"):
            # constant at the concentration of the first simulated year (no level given)
            kw["co2_concentration"] = CO2(constant_conc=True, **ref)
        elif co2.get("default"):
            kw["co2_concentration"] = CO2()
    return kw


def make_model(spec, kw=None):
    common.use_repo()
    from aquacrop import AquaCropModel

    return AquaCropModel(**(build(spec) if kw is None else kw))


def irr_method(spec):
    return 0 if spec.get("irr") is None else int(spec["irr"]["method"])


def summary_of(spec):
    """Short human-readable line for evidence samples."""
    s = spec
    return {
        "crop": s["crop"]["name"], "planting": s["crop"]["planting"], "soil": s["soil"]["type"],
        "window": f"{s['start']}..{s['end']}", "off_season": bool(s.get("off_season")),
        "irr": irr_method(s), "weather": s["weather"].get("name") or s["weather"].get("regime"),
        "gw": None if not s.get("gw") else (s["gw"].get("method"), s["gw"]["values"][:2]),
        "fm": s.get("fm"), "iwc": (s.get("iwc") or {}).get("value"),
    }
