"""Weather frames: bundled climate files (raw or transformed) and synthetic regimes.

A weather *spec* is a small JSON object; ``frame(spec, lo, hi)`` returns the DataFrame in
the layout ``prepare_weather`` produces (MinTemp MaxTemp Precipitation ReferenceET Date),
one row per calendar day from ``lo`` to ``hi``.  Synthetic values are a pure function of
(seed, calendar date): asking for a longer or shifted range never changes the value of a
date, which is what the differential checks (C08, C14, C15) rely on.
"""
import datetime as dt
import functools

import numpy as np
import pandas as pd

from . import common

REGIMES = {
    # tm: annual mean temperature, amp: seasonal amplitude, pwet: wet-day probability,
    # rmean: mean wet-day rain, pstorm: probability of an 80-300 mm storm, et: mean ET0
    "temperate": dict(tm=14.0, amp=8.0, pwet=0.35, rmean=6.0, pstorm=0.002, et=3.0),
    "arid": dict(tm=24.0, amp=8.0, pwet=0.03, rmean=6.0, pstorm=0.001, et=7.5),
    "humid": dict(tm=25.0, amp=3.0, pwet=0.6, rmean=12.0, pstorm=0.01, et=4.0),
    "monsoon": dict(tm=26.0, amp=4.0, pwet=0.45, rmean=22.0, pstorm=0.04, et=5.0),
    "cold": dict(tm=8.0, amp=11.0, pwet=0.3, rmean=5.0, pstorm=0.001, et=2.0),
    "hot": dict(tm=31.0, amp=6.0, pwet=0.1, rmean=8.0, pstorm=0.004, et=8.5),
    "warm": dict(tm=21.0, amp=5.0, pwet=0.25, rmean=9.0, pstorm=0.006, et=5.0),
    # no day of the year accumulates degree days for most crops
    "polar": dict(tm=-4.0, amp=5.0, pwet=0.3, rmean=3.0, pstorm=0.0, et=0.8),
}


def _d(s):
    if isinstance(s, dt.date):
        return s
    s = s.replace("-", "/")
    y, m, d = s.split("/")
    return dt.date(int(y), int(m), int(d))


@functools.lru_cache(maxsize=16)
def _file_frame(name):
    common.use_repo()
    from aquacrop.utils import prepare_weather, get_filepath

    return prepare_weather(get_filepath(name))


def file_span(name):
    df = _file_frame(name)
    return df.Date.iloc[0].date(), df.Date.iloc[-1].date()


def _synth_year(seed, year, p, south):
    n = 366 if (year % 4 == 0 and (year % 100 != 0 or year % 400 == 0)) else 365
    rng = np.random.default_rng([int(seed) & 0x7FFFFFFF, int(year)])
    doy = np.arange(1, n + 1)
    phase = 110 + (182 if south else 0)
    season = np.sin(2 * np.pi * (doy - phase) / 365.25)
    tmean = p["tm"] + p["amp"] * season + rng.normal(0, 3, n) * (float(p.get("tnoise", 3.0)) / 3.0)
    if p.get("interannual"):
        # warm and cool years (own stream, so the daily noise of a date does not change)
        tmean = tmean + float(np.random.default_rng([int(seed) & 0x7FFFFFFF, int(year), 99]).normal(0, p["interannual"]))
    dtr = np.abs(rng.normal(10, 3, n)) + 1
    if "dtr" in p:
        # a steadier climate: given mean diurnal range, a tenth of the usual spread
        dtr = float(p["dtr"]) + (dtr - 11.0) * 0.1
    tmin = tmean - dtr / 2
    tmax = tmean + dtr / 2
    wet = rng.random(n) < p["pwet"]
    rain = np.where(wet, rng.gamma(0.7, p["rmean"] / 0.7, n), 0.0)
    storm = rng.random(n) < p["pstorm"]
    rain = np.where(storm, rng.uniform(80, 300, n), rain)
    et0 = np.clip(p["et"] + 0.35 * p["et"] * season + rng.normal(0, 0.8, n), 0.1, 20)
    return np.round(tmin, 2), np.round(tmax, 2), np.round(rain, 2), np.round(et0, 2)


def frame(spec, lo, hi):
    """DataFrame of daily weather for every date in [lo, hi]."""
    lo, hi = _d(lo), _d(hi)
    if spec["kind"] == "file":
        df = _file_frame(spec["name"])
        m = (df.Date >= pd.Timestamp(lo)) & (df.Date <= pd.Timestamp(hi))
        out = df[m].copy().reset_index(drop=True)
        if len(out) != (hi - lo).days + 1:
            raise ValueError(f"climate file {spec['name']} does not cover {lo}..{hi}")
    else:
        p = dict(REGIMES[spec.get("regime", "temperate")])
        p.update(spec.get("params", {}))
        cols = [[], [], [], []]
        for y in range(lo.year, hi.year + 1):
            for c, v in zip(cols, _synth_year(spec["seed"], y, p, spec.get("south", False))):
                c.append(v)
        tmin, tmax, rain, et0 = (np.concatenate(c) for c in cols)
        dates = pd.date_range(dt.date(lo.year, 1, 1), dt.date(hi.year, 12, 31), freq="D")
        out = pd.DataFrame(
            {"MinTemp": tmin, "MaxTemp": tmax, "Precipitation": rain, "ReferenceET": et0,
             "Date": dates}
        )
        m = (out.Date >= pd.Timestamp(lo)) & (out.Date <= pd.Timestamp(hi))
        out = out[m].reset_index(drop=True)
    # from a given date on, take the values of another weather spec (C14 perturbations)
    sw = spec.get("switch")
    if sw is not None:
        a = pd.Timestamp(_d(sw["from"]))
        if a <= pd.Timestamp(hi):
            other = frame(sw["to"], max(lo, a.date()), hi)
            m = out.Date >= a
            for c in ("MinTemp", "MaxTemp", "Precipitation", "ReferenceET"):
                out.loc[m, c] = other[c].to_numpy()[-int(m.sum()):] if int(m.sum()) else []
    # global transforms
    if spec.get("rain_mult", 1) != 1:
        out["Precipitation"] = np.round(out["Precipitation"] * spec["rain_mult"], 3)
    if spec.get("temp_add", 0) != 0:
        out["MinTemp"] = out["MinTemp"] + spec["temp_add"]
        out["MaxTemp"] = out["MaxTemp"] + spec["temp_add"]
    if spec.get("et_mult", 1) != 1:
        out["ReferenceET"] = np.clip(np.round(out["ReferenceET"] * spec["et_mult"], 3), 0.1, 20)
    if spec.get("whole_degrees"):
        # temperatures recorded to the degree (old station records): cumulative degree days hit
        # the crop's thresholds exactly every now and then
        out["MinTemp"] = np.round(out["MinTemp"])
        out["MaxTemp"] = np.round(out["MaxTemp"])
    # dated episodes: {"var": col, "from": date, "days": n, "value": v | "add": a}
    for ep in spec.get("episodes", []):
        a = pd.Timestamp(_d(ep["from"]))
        b = a + pd.Timedelta(days=int(ep["days"]) - 1)
        m = (out.Date >= a) & (out.Date <= b)
        if not m.any():
            continue
        if ep["var"] == "frost":
            out.loc[m, "MinTemp"] = ep.get("value", -6.0)
            out.loc[m, "MaxTemp"] = np.maximum(out.loc[m, "MinTemp"] + 1, ep.get("tmax", 2.0))
        elif ep["var"] == "heat":
            out.loc[m, "MaxTemp"] = ep.get("value", 47.0)
            out.loc[m, "MinTemp"] = np.minimum(out.loc[m, "MaxTemp"] - 1, ep.get("tmin", 30.0))
        elif "value" in ep:
            out.loc[m, ep["var"]] = float(ep["value"])
        elif "add" in ep:
            out.loc[m, ep["var"]] = out.loc[m, ep["var"]] + float(ep["add"])
    # keep the documented invariants after transforms
    out["Precipitation"] = out["Precipitation"].clip(lower=0.0)
    if spec["kind"] != "file" or "et_floor" in spec:
        # a bundled file is used exactly as prepare_weather() hands it over (its own lower limit
        # of 0.1 mm included): re-clipping here would hide a prepare_weather that stopped clipping
        out["ReferenceET"] = out["ReferenceET"].clip(lower=float(spec.get("et_floor", 0.1)))
    swap = out.MinTemp > out.MaxTemp
    if swap.any():
        lo_, hi_ = out.MinTemp.where(~swap, out.MaxTemp), out.MaxTemp.where(~swap, out.MinTemp)
        out["MinTemp"], out["MaxTemp"] = lo_, hi_
    for c in ("MinTemp", "MaxTemp", "Precipitation", "ReferenceET"):
        out[c] = out[c].astype(float)
    return out[["MinTemp", "MaxTemp", "Precipitation", "ReferenceET", "Date"]]
