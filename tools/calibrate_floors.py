#!/venv/bin/python
"""Derive coverage floors from the evidence of a run on the unchanged tree.

floor(quick) = observed/10 (keys whose value is a small catalogue count keep a near-exact floor);
floor(thorough) = 6 x floor(quick) unless a thorough evidence file is given (then observed/10).
Writes vf/floors.json, which the CLI prefers over the FLOORS literals in the property modules.
Floors exist so that a change which makes every run crash early cannot be reported as 'held';
they are deliberately far below what the unchanged tree produces.
"""
import glob, importlib, json, os, sys
ROOT = os.path.dirname(os.path.dirname(os.path.abspath(__file__)))
sys.path.insert(0, ROOT)
EXACT = {"crops_lattice": 37, "crops_co2": 37, "soils_completed_3x": 13, "strategies_completed_3x": 6,
         "crops_completed_3x": 30, "crops_seen": 30, "exhaustive_windows": 3}
path = os.path.join(ROOT, "vf", "floors.json")
out = json.load(open(path)) if os.path.exists(path) else {}
for f in sorted(glob.glob(os.path.join(ROOT, "evidence", "C*.json"))):
    e = json.load(open(f))
    pid, tier = e["property_id"], e["tier"]
    mod = importlib.import_module(f"vf.props.{pid.lower()}")
    keys = list(getattr(mod, "FLOORS", {}).get("quick", {}))
    obs = e["coverage"]["observed"]
    fl = {}
    for k in keys:
        fl[k] = EXACT[k] if k in EXACT else max(1, int(obs.get(k, 0) / 10))
    out.setdefault(pid, {})[tier] = fl
    if tier == "quick" and "--keep-thorough" not in sys.argv:
        out[pid]["thorough"] = {k: (v if k in EXACT else v * 6) for k, v in fl.items()}
        for k in ("crops_completed_3x", "crops_seen"):
            if k in fl:
                out[pid]["thorough"][k] = 33
        if "exhaustive_windows" in fl:
            out[pid]["thorough"]["exhaustive_windows"] = 8
json.dump(out, open(path, "w"), indent=1, sort_keys=True)
print("wrote", path)
