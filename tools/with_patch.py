#!/venv/bin/python
"""Run a command against a scratch copy of /repo with a patch applied.

    tools/with_patch.py PATCH.diff [PATCH2.diff ...] -- ./check C12 --tier quick

The copy (python files only, the data directory is symlinked) lives under $TMPDIR outside
/repo and /verif and is removed afterwards.  VERIF_REPO points the checks at it.  With
``-R`` the patch is applied in reverse (e.g. to undo a "fix:" commit).
"""
import os
import shutil
import subprocess
import sys
import tempfile


def main():
    args = sys.argv[1:]
    reverse = False
    if args and args[0] == "-R":
        reverse = True
        args = args[1:]
    i = args.index("--")
    patches, cmd = args[:i], args[i + 1:]
    src = os.environ.get("MUT_BASE", "/repo")
    tmp = tempfile.mkdtemp(prefix="vfmut-")
    try:
        dst = os.path.join(tmp, "repo")
        os.makedirs(dst)

        def ignore(d, names):
            out = [n for n in names if n in ("__pycache__", ".git", "docs", "tests")]
            if os.path.basename(d) == "aquacrop":
                out.append("data")
            return out

        shutil.copytree(os.path.join(src, "aquacrop"), os.path.join(dst, "aquacrop"), ignore=ignore)
        os.symlink(os.path.join(src, "aquacrop", "data"), os.path.join(dst, "aquacrop", "data"))
        for p in patches:
            r = subprocess.run(["patch", "-p1", "--no-backup-if-mismatch"] + (["-R"] if reverse else [])
                               + ["-i", os.path.abspath(p)], cwd=dst, capture_output=True, text=True)
            if r.returncode != 0:
                print("PATCH FAILED", p, r.stdout, r.stderr)
                return 3
        env = dict(os.environ, VERIF_REPO=dst)
        return subprocess.run(cmd, env=env, cwd=os.path.dirname(os.path.dirname(os.path.abspath(__file__)))).returncode
    finally:
        shutil.rmtree(tmp, ignore_errors=True)


if __name__ == "__main__":
    sys.exit(main())
