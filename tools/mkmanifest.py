#!/venv/bin/python
"""Regenerate MANIFEST.json from the property modules that exist under vf/props."""
import importlib
import json
import os
import sys

ROOT = os.path.dirname(os.path.dirname(os.path.abspath(__file__)))
sys.path.insert(0, ROOT)

LEVEL_TEXT = {
 "C01": "Executable water ledger replayed over the recorded per-process and per-day events of real runs (nine wrapped processes, storage with the thicknesses captured at initialisation, carry-over and season-reset clauses). Exploration: held on the hostile configurations and days counted in the evidence.",
 "C02": "Row monitor over real runs: the user's rain record of the date plus the efficiency-adjusted application against reported infiltration + runoff, bounds on runoff, negative infiltration only on the first day the ponding capacity falls below the pond, and the pond before the first step as configured.",
 "C03": "Row monitor over real runs: every compartment against the air-dry/saturation arrays captured at initialisation, ponding against the bund height the user configured (also in a second model built from the same objects), root-zone storage.",
 "C04": "Row monitor over real runs emphasising dense canopies, ponding, mulches and partial wetting: sign of all nine fluxes, actual <= potential, zeros out of season.",
 "C05": "Row monitor over real runs of all 37 crops against the envelope the user configured (catalogue + constructor arguments; the season's crop object must carry the same values), incl. a second model of the same crop with a narrower envelope in the same process: canopy, rooting depth (water table, restrictive layers), harvest indices, degree days, finiteness.",
 "C06": "Row + summary monitor over real runs: biomass gain ratio against WP*fCO2*Tr/ET0 with the user's ET0 by date, yield identities, and a one-to-one match of harvest events (observed by the step tap) with summary rows.",
 "C07": "Reference calendar (plain datetime arithmetic) replayed over the executed step sequence of real runs, incl. runs driven through random step compositions: order, dates, dap chain, season ends, jumps, termination, number of seasons, latest harvest dates (one month/day for all seasons, first such day after planting).",
 "C08": "Differential oracle over real runs: every season of a multi-season run (and season 0 after a fallow start) bit-identical to a fresh run started on that planting date; season-entry state diff as witness.",
 "C09": "Differential oracle: all 2^(n-1) step compositions of short windows (exhaustive for those windows) and random compositions of long ones reproduce the uninterrupted run and its completion status after every call, incl. getters read between calls, re-used model objects and further calls made after termination.",
 "C10": "Output digests of real runs compared across fresh interpreters (hash seeds), in-process histories (unrelated and near-identical predecessors, models paused while another one runs) and pool workers; digest of process-global objects between models.",
 "C11": "Differential oracle: three re-runs of the same model and models re-built from the same user objects (incl. crops the model converts to thermal time) reproduce the first run and do not raise; semantic snapshots of the user objects as witness.",
 "C12": "Sanitizer-style: every parameter array is write-protected after initialisation (a write raises at the faulting statement) and content digests of all parameter groups are taken before and after every step.",
 "C13": "Contract checker over the recorded arguments and results of every irrigation call of real runs, with the schedule looked up in the user's table by date, an independent depletion estimate and an independent growth stage.",
 "C14": "Logging ndarray on the weather matrix (every index read) plus differential runs: weather replaced from a cut day on, padded (with holes) outside the window, end date extended.",
 "C15": "Per-step binding check of the stored weather values against the user's record of that date, plus differential runs over transformed weather tables (all 120 column permutations in the thorough tier).",
 "C16": "Catalogue sweep of real runs under logical-time watchdogs; finiteness of every reported cell; only documented rejections accepted, and those only when an independent degree-day count justifies them. Thorough: the full 37x15x6 product.",
 "C17": "Runtime contracts on the real response functions over an exhaustive 37-crop lattice (parameters as initialised by the model), the CO2 factor through both code paths for the default and two user-supplied reference concentrations, and the same range contracts riding along in real simulations.",
 "C18": "Structural invariants of the live soil profile right after the real _initialize(), and an independent reference for layer assignment and initial water content (with and without a water table, requests below wilting point), over built-in, custom and texture soils and all crop rooting depths.",
 "C19": "Row/ledger monitor over real runs with water tables (reference depth series by date incl. observations outside the window and a second model given the same GroundWater object over a later window, adjusted field capacity, saturation below the table, capillary-rise ceiling) plus far-table-vs-no-table differential runs.",
 "C20": "Differential oracle over real runs: base configuration vs. twelve neutral transformations (in-season and fallow management, other strategies' parameters, neutral values, explicit default harvest date), alone and combined.",
}
NOTE = ("Exploration, not proof: nothing is claimed about configurations no run produced (the evidence lists factor counters, "
        "regime counters, reach map). Trusts numpy/pandas, IEEE determinism on one machine for the bit-identity oracles, the "
        "generators' notion of a valid configuration (DESIGN.md 4.1) and that the rebound names are the ones the model calls "
        "(an instrument that recorded no event makes the case inconclusive).")


def main():
    props = [json.loads(l) for l in open(os.path.join(ROOT, "properties.jsonl"))]
    checks, na = [], []
    for p in props:
        pid = p["id"]
        path = os.path.join(ROOT, "vf", "props", pid.lower() + ".py")
        if not os.path.exists(path):
            na.append({"property_id": pid, "reason": "check under construction in this round (see DESIGN.md section 6 for its design); not claimed yet"})
            continue
        mod = importlib.import_module(f"vf.props.{pid.lower()}")
        checks.append({
            "property_id": pid,
            "quick_cmd": f"./check {pid} --tier quick",
            "thorough_cmd": f"./check {pid} --tier thorough",
            "evidence_file": f"/verif/evidence/{pid}.json",
            "replay_cmd_template": f"./check {pid} --replay {{path}}",
            "engine": "vf",
            "level_claimed": {
                "category": "exploration",
                "text": getattr(mod, "LEVEL_TEXT", None) or LEVEL_TEXT.get(pid) or
                "Runtime monitor (oracle over recorded events of real executions); held on the executions described in the evidence file.",
                "design_ref": f"DESIGN.md section 6, {pid}",
            },
            "level_note": NOTE + " Property-specific assumptions: " + "; ".join(getattr(mod, "ASSUMPTIONS", [])),
            "technique": getattr(mod, "TECHNIQUE", "runtime monitoring: offline checker over recorded traces of real runs"),
        })
    man = {
        "version": 1,
        "setup_cmd": "/venv/bin/python -c \"import numpy, pandas, sys; sys.path.insert(0, '/verif'); import vf.cli\"",
        "hooks": {
            "guard": "AQUACROP_VERIF",
            "enable": "no in-repo hooks: every observation point is reached by rebinding names in the repository's module namespaces from the harness (vf/instrument.py); ./check exports AQUACROP_VERIF=1 as the reserved guard",
            "baseline_off_cmd": "cd /repo && env -u AQUACROP_VERIF /venv/bin/python -m pytest -ra -q -p no:cacheprovider --timeout=900 --continue-on-collection-errors",
            "source_commits": [],
            "add_only": True,
        },
        "engines": [{
            "name": "vf", "path": "/verif/vf",
            "serves_properties": [c["property_id"] for c in checks],
            "kind_free_text": "Python runtime-monitoring harness: wrappers rebinding the model's process functions, write-protected parameter arrays, sys.monitoring watchdogs and reach map, offline trace checkers and differential oracles over real AquaCropModel runs",
        }],
        "checks": checks,
        "not_applicable": na,
        "notes": "All checks run the working tree of /repo (VERIF_REPO overrides) with /venv/bin/python; VERIF_SEED, VERIF_TIER, VERIF_SCALE are honoured. Exit 0 held / 1 VIOLATION / 2 INCONCLUSIVE.",
    }
    with open(os.path.join(ROOT, "MANIFEST.json"), "w") as fh:
        json.dump(man, fh, indent=1)
        fh.write("\n")
    print("checks:", [c["property_id"] for c in checks], "not claimed:", [x["property_id"] for x in na])


if __name__ == "__main__":
    main()
