#!/venv/bin/python
"""Regenerate MANIFEST.json from the property modules that exist under vf/props."""
import importlib
import json
import os
import sys

ROOT = os.path.dirname(os.path.dirname(os.path.abspath(__file__)))
sys.path.insert(0, ROOT)

LEVEL_TEXT = {
    "C01": "Executable water ledger over the recorded per-process and per-day events of real runs; held on the executions listed in the evidence, not a proof.",
}


def main():
    props = [json.loads(l) for l in open(os.path.join(ROOT, "properties.jsonl"))]
    checks, na = [], []
    for p in props:
        pid = p["id"]
        path = os.path.join(ROOT, "vf", "props", pid.lower() + ".py")
        if not os.path.exists(path):
            na.append({"property_id": pid, "reason": "check under construction in this round (see DESIGN.md section 6 for its design); not claimed yet"})
            continue
        mod = importlib.import_module(f"vf.props.{pid.lower()}")
        checks.append({
            "property_id": pid,
            "quick_cmd": f"./check {pid} --tier quick",
            "thorough_cmd": f"./check {pid} --tier thorough",
            "evidence_file": f"/verif/evidence/{pid}.json",
            "replay_cmd_template": f"./check {pid} --replay {{path}}",
            "engine": "vf",
            "level_claimed": {
                "category": "exploration",
                "text": getattr(mod, "LEVEL_TEXT", None) or LEVEL_TEXT.get(pid) or
                "Runtime monitor (oracle over recorded events of real executions); held on the executions described in the evidence file.",
                "design_ref": f"DESIGN.md section 6, {pid}",
            },
            "level_note": getattr(mod, "LEVEL_NOTE", "; ".join(getattr(mod, "ASSUMPTIONS", [])) or
                                  "trusts numpy/pandas, the generators' notion of a valid configuration (DESIGN.md 4.1) and that the wrapped names are the ones the model calls (zero-count instruments make the run inconclusive)"),
            "technique": getattr(mod, "TECHNIQUE", "runtime monitoring: offline checker over recorded traces of real runs"),
        })
    man = {
        "version": 1,
        "setup_cmd": "/venv/bin/python -c \"import numpy, pandas, sys; sys.path.insert(0, '/verif'); import vf.cli\"",
        "hooks": {
            "guard": "AQUACROP_VERIF",
            "enable": "no in-repo hooks: every observation point is reached by rebinding names in the repository's module namespaces from the harness (vf/instrument.py); ./check exports AQUACROP_VERIF=1 as the reserved guard",
            "baseline_off_cmd": "cd /repo && env -u AQUACROP_VERIF /venv/bin/python -m pytest -ra -q -p no:cacheprovider --timeout=900 --continue-on-collection-errors",
            "source_commits": [],
            "add_only": True,
        },
        "engines": [{
            "name": "vf", "path": "/verif/vf",
            "serves_properties": [c["property_id"] for c in checks],
            "kind_free_text": "Python runtime-monitoring harness: wrappers rebinding the model's process functions, write-protected parameter arrays, sys.monitoring watchdogs and reach map, offline trace checkers and differential oracles over real AquaCropModel runs",
        }],
        "checks": checks,
        "not_applicable": na,
        "notes": "All checks run the working tree of /repo (VERIF_REPO overrides) with /venv/bin/python; VERIF_SEED, VERIF_TIER, VERIF_SCALE are honoured. Exit 0 held / 1 VIOLATION / 2 INCONCLUSIVE.",
    }
    with open(os.path.join(ROOT, "MANIFEST.json"), "w") as fh:
        json.dump(man, fh, indent=1)
        fh.write("\n")
    print("checks:", [c["property_id"] for c in checks], "not claimed:", [x["property_id"] for x in na])


if __name__ == "__main__":
    main()
