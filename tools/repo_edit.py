#!/venv/bin/python
"""Replace one exact snippet in a repository file, preserving its line-ending style (several
files of aquacropos/aquacrop use CRLF).   tools/repo_edit.py FILE OLD_FILE NEW_FILE"""
import sys

path, oldf, newf = sys.argv[1:4]
raw = open(path, newline="").read()
crlf = "\r\n" in raw
s = raw.replace("\r\n", "\n")
old, new = open(oldf).read(), open(newf).read()
assert s.count(old) == 1, f"snippet occurs {s.count(old)} times"
s = s.replace(old, new)
open(path, "w", newline="").write(s.replace("\n", "\r\n") if crlf else s)
print("edited", path, "CRLF" if crlf else "LF")
