#!/bin/sh
# run every check of a tier on the working tree of /repo:  tools/runall.sh [quick|thorough] [seed]
cd "$(dirname "$0")/.." || exit 3
tier=${1:-quick}; seed=${2:-0}
rc_all=0
for p in C01 C02 C03 C04 C05 C06 C07 C08 C09 C10 C11 C12 C13 C14 C15 C16 C17 C18 C19 C20; do
  t0=$(date +%s)
  out=$(./check $p --tier $tier --seed $seed 2>&1); rc=$?
  t1=$(date +%s)
  echo "== $p rc=$rc $((t1-t0))s :: $(echo "$out" | grep '^SUMMARY' | sed 's/^SUMMARY //')"
  echo "$out" | grep -E '^(VIOLATION|INCONCLUSIVE|EVIDENCE-INVALID|NOTE)' | head -6
  [ $rc -ne 0 ] && rc_all=1
done
exit $rc_all
