#!/bin/sh
# Regression over every stored seeded change: apply seeded/<id>/patch.diff in a scratch worktree,
# run the check(s) that are recorded as catching it (VERIF_REPO=<worktree>), report any that no
# longer fire.  tools/reeval_all.sh [pattern]
cd "$(dirname "$0")/.." || exit 3
pat=${1:-}
mkdir -p /tmp/ev
fail=0
for d in seeded/*${pat}*/; do
  id=$(basename $d)
  if grep -q '"neutralised"' $d/meta.json; then echo "$id skipped (neutralised by a later repository fix, see meta.json)"; continue; fi
  checks=$(/venv/bin/python -c "
import json; m=json.load(open('$d/meta.json')); ev=m['evaluation']['checks']
c=[k for k,v in ev.items() if v['result']=='caught'] or [m['breaks_property']]; print(c[0])")
  wt=/tmp/ev/re-$id
  git -C /repo worktree remove --force $wt 2>/dev/null
  git -C /repo worktree add -q --detach $wt HEAD
  if ! git -C $wt apply --whitespace=nowarn $(pwd)/$d/patch.diff 2>/dev/null; then
    echo "$id PATCH-DOES-NOT-APPLY"; fail=1
  else
    out=$(VERIF_REPO=$wt ./check $checks --tier quick 2>&1); rc=$?
    first=$(echo "$out" | grep -m1 'clause=' | cut -c1-140)
    if [ $rc -eq 1 ]; then echo "$id $checks caught :: $first"; else echo "$id $checks NOT-CAUGHT rc=$rc"; fail=1; fi
  fi
  git -C /repo worktree remove --force $wt
done
exit $fail
