#!/bin/sh
# Run the repository's own tests with the monitors on (DESIGN.md 8.3), in a scratch worktree.
set -e
wt=/tmp/ev/monitored
git -C /repo worktree remove --force $wt 2>/dev/null || true
git -C /repo worktree add -q --detach $wt HEAD
cd $wt
VERIF_REPO=$wt PYTHONPATH=/verif /venv/bin/python -m pytest -q -p no:cacheprovider -p vf.pytest_plugin --timeout=900 tests 2>&1 | tail -5
cd /
git -C /repo worktree remove --force $wt
