#!/venv/bin/python
"""Confirm a seeded change and run the checks against it.

    tools/eval_seed.py SRC_DIR PROP K [--checks C01,C03] [--tier quick]

SRC_DIR holds patch_K.diff, demo_K.py, meta_K.json written by a sub-agent.  In a scratch git
worktree of /repo (under /tmp, removed afterwards) this script verifies that the patch applies,
that the repository's tests pass with it, that the demonstration fails with it and passes
without it, then runs the named checks (default: the property's own) against the patched tree
through VERIF_REPO.  On success the change is stored under /verif/seeded/<PROP>-<K>/.
"""
import argparse
import json
import os
import shutil
import subprocess
import sys
import time

ROOT = os.path.dirname(os.path.dirname(os.path.abspath(__file__)))
PY = "/venv/bin/python"


def sh(cmd, cwd=None, env=None, timeout=3600):
    p = subprocess.run(cmd, cwd=cwd, env=env, capture_output=True, text=True, timeout=timeout)
    return p.returncode, p.stdout + p.stderr


def main():
    ap = argparse.ArgumentParser()
    ap.add_argument("src")
    ap.add_argument("prop")
    ap.add_argument("k")
    ap.add_argument("--checks", default="")
    ap.add_argument("--tier", default="quick")
    ap.add_argument("--name", default="")
    ap.add_argument("--skip-confirm", action="store_true")
    a = ap.parse_args()
    name = a.name or f"{a.prop}-{a.k}"
    patch = os.path.join(a.src, f"patch_{a.k}.diff")
    demo = os.path.join(a.src, f"demo_{a.k}.py")
    meta_src = os.path.join(a.src, f"meta_{a.k}.json")
    wt = f"/tmp/ev/{name}"
    os.makedirs("/tmp/ev", exist_ok=True)
    sh(["git", "-C", "/repo", "worktree", "remove", "--force", wt])
    rc, out = sh(["git", "-C", "/repo", "worktree", "add", "--detach", wt, "HEAD"])
    res = {"id": name, "property": a.prop, "repo_head": sh(["git", "-C", "/repo", "rev-parse", "--short", "HEAD"])[1].strip()}
    try:
        os.makedirs(os.path.join(wt, "seed_out"), exist_ok=True)
        shutil.copy(demo, os.path.join(wt, "seed_out", f"demo_{a.k}.py"))
        env = dict(os.environ)
        env.pop("VERIF_REPO", None)
        if not a.skip_confirm:
            rc0, o0 = sh([PY, f"seed_out/demo_{a.k}.py"], cwd=wt, env=env)
            res["demo_without"] = rc0
        rc, out = sh(["git", "-C", wt, "apply", "--whitespace=nowarn", os.path.abspath(patch)])
        res["patch_applies"] = rc == 0
        if rc != 0:
            res["error"] = out[-400:]
            print(json.dumps(res))
            return 2
        if not a.skip_confirm:
            rc1, o1 = sh([PY, f"seed_out/demo_{a.k}.py"], cwd=wt, env=env)
            res["demo_with"] = rc1
            res["demo_output_with"] = o1.strip().splitlines()[-3:]
            t0 = time.time()
            rct, ot = sh([PY, "-m", "pytest", "-q", "-p", "no:cacheprovider", "--timeout=900", "-n", "8"], cwd=wt, env=env)
            res["repo_tests"] = ot.strip().splitlines()[-1][:80]
            res["repo_tests_pass"] = rct == 0 and "33 passed" in ot
            res["confirmed"] = bool(res["demo_without"] == 0 and res["demo_with"] == 1 and res["repo_tests_pass"])
        checks = [c for c in a.checks.split(",") if c] or [a.prop]
        res["checks"] = {}
        for c in checks:
            env2 = dict(os.environ, VERIF_REPO=wt)
            t0 = time.time()
            rc, out = sh([os.path.join(ROOT, "check"), c, "--tier", a.tier], cwd=ROOT, env=env2)
            first = [l.strip() for l in out.splitlines() if l.strip().startswith("clause=")][:2]
            summ = [l for l in out.splitlines() if l.startswith("SUMMARY")][:1]
            res["checks"][c] = {"exit": rc, "result": {0: "MISSED", 1: "caught", 2: "inconclusive"}.get(rc, str(rc)),
                                "first": [f[:220] for f in first], "wall": round(time.time() - t0, 1),
                                "summary": summ[0][:200] if summ else out[-300:]}
        dst = os.path.join(ROOT, "seeded", name)
        os.makedirs(dst, exist_ok=True)
        shutil.copy(patch, os.path.join(dst, "patch.diff"))
        shutil.copy(demo, os.path.join(dst, "demo.py"))
        meta = {}
        if os.path.exists(meta_src):
            try:
                meta = json.load(open(meta_src))
            except Exception:
                meta = {"raw": open(meta_src).read()[:2000]}
        prev = {}
        mp = os.path.join(dst, "meta.json")
        if os.path.exists(mp):
            prev = json.load(open(mp))
        prevchecks = prev.get("evaluation", {}).get("checks", {})
        prevchecks.update(res["checks"])
        if a.skip_confirm and prev.get("evaluation"):
            for k in ("demo_without", "demo_with", "repo_tests", "repo_tests_pass", "confirmed", "demo_output_with"):
                if k in prev["evaluation"]:
                    res[k] = prev["evaluation"][k]
        res["checks"] = prevchecks
        meta.update({"breaks_property": a.prop, "seeded_by": "independent sub-agent (given only the property text and a scratch worktree)",
                     "what_was_run": f"git apply patch.diff in a scratch worktree of /repo@{res['repo_head']}; repository tests; "
                                     f"demo.py with and without the patch; ./check <id> --tier {a.tier} with VERIF_REPO=<worktree>",
                     "evaluation": res})
        json.dump(meta, open(mp, "w"), indent=1)
        print(json.dumps(res))
    finally:
        sh(["git", "-C", "/repo", "worktree", "remove", "--force", wt])
        shutil.rmtree(wt, ignore_errors=True)
    return 0


if __name__ == "__main__":
    sys.exit(main())
