#!/venv/bin/python
"""Sensitivity self-test (DESIGN.md section 8.2): small property-breaking edits, each applied to a
scratch copy of /repo (never to /repo itself), the property's quick check run against the copy
with VERIF_REPO, the copy removed.  Writes selftest_results.json.

    tools/selftest.py [--only m07,m12] [--scale 0.4] [--jobs 2]
"""
import argparse
import json
import os
import shutil
import subprocess
import sys
import tempfile
import time

ROOT = os.path.dirname(os.path.dirname(os.path.abspath(__file__)))
REPO = "/repo"

# (id, property, file under aquacrop/, old, new, description)
M = [
 ("m01", "C01", "solution/infiltration.py", "                    Runoff = Runoff + excess\n", "                    Runoff = Runoff\n",
  "back-up excess that does not fit above the surface is dropped instead of becoming runoff"),
 ("m02", "C01", "solution/groundwater_inflow.py", "GwIn = GwIn + (dth * 1000 * prof.dz[ii])", "GwIn = GwIn + (dth * 1000 * prof.dz[0])",
  "groundwater inflow reported with the first compartment's thickness"),
 ("m03", "C01", "timestep/reset_initial_conditions.py", "    if ClockStruct.sim_off_season is False:\n        # Reset water content",
  "    if ClockStruct.sim_off_season is False and ClockStruct.season_counter < 2:\n        # Reset water content",
  "seasons >= 3 are not reset to the initial water content"),
 ("m04", "C02", "solution/infiltration.py", "    Infl = Infl - Runoff\n", "    Infl = Infl - RunoffIni\n",
  "reported infiltration ignores the back-up runoff"),
 ("m05", "C02", "solution/rainfall_partition.py", "            Infl = precipitation - Runoff\n", "            Infl = precipitation\n",
  "curve-number runoff not subtracted from infiltration"),
 ("m06", "C03", "solution/infiltration.py", "                    NewCond_SurfaceStorage = FieldMngt_zBund * 1\n", "                    pass\n",
  "ponding not capped at the bund height (first cap)"),
 ("m07", "C03", "solution/soil_evaporation.py", "                AvW = (W - Wdry) * factor\n                if AvW >= ToExtractStg2:", "                AvW = (W - 0.5 * Wdry) * factor\n                if AvW >= ToExtractStg2:",
  "stage-2 evaporation may extract below air-dry"),
 ("m08", "C04", "solution/soil_evaporation.py", "        if EsPot < 0:\n            EsPot = 0\n", "        pass\n",
  "revert of the D4 repair (negative potential evaporation)"),
 ("m09", "C05", "solution/cc_development.py", "        if canopy_cover > CCx:\n            canopy_cover = CCx\n", "        pass\n",
  "growth curve not limited to CCx"),
 ("m10", "C05", "solution/root_development.py", "            if NewCond_Zroot > NewCond_zGW:", "            if NewCond_Zroot > NewCond_zGW + 0.3:",
  "roots may reach 0.3 m below the water table"),
 ("m11", "C06", "timestep/run_single_timestep.py", "NewCond.DryYield = (NewCond.biomass / 100) * NewCond.harvest_index_adj", "NewCond.DryYield = (NewCond.biomass / 100) * NewCond.harvest_index",
  "dry yield from the unadjusted harvest index"),
 ("m12", "C06", "timestep/run_single_timestep.py", "            IrrTot = NewCond.irr_net_cum\n", "            IrrTot = NewCond.irr_net_cum - PreIrr\n",
  "seasonal net irrigation in the summary omits the last pre-irrigation"),
 ("m13", "C06", "solution/biomass_accumulation.py", "        WPadj = WPadj * Crop.fCO2\n", "        WPadj = WPadj * Crop.fCO2 * (1.02 if NewCond_DAP > 100 else 1)\n",
  "biomass gain 2 % too high after day 100"),
 ("m14", "C07", "timestep/run_single_timestep.py", "        NewCond.dap = NewCond.dap + 1\n", "        NewCond.dap = NewCond.dap + (2 if (NewCond.dap == 0 and clock_struct.season_counter > 0) else 1)\n",
  "days after planting start at 2 in seasons >= 2"),
 ("m15", "C07", "timestep/update_time.py", "                clock_struct.time_step_counter = clock_struct.time_span.get_loc(\n                    clock_struct.planting_dates[clock_struct.season_counter]\n                )",
  "                clock_struct.time_step_counter = clock_struct.time_span.get_loc(\n                    clock_struct.planting_dates[clock_struct.season_counter]\n                ) - 1",
  "season jump lands on the day before planting"),
 ("m16", "C08", "timestep/reset_initial_conditions.py", "    InitCond.irr_cum = 0\n", "",
  "seasonal irrigation counter not reset"),
 ("m17", "C08", "timestep/reset_initial_conditions.py", "        InitCond.e_pot = 0\n        InitCond.t_pot = 0\n", "",
  "revert of the D3 repair"),
 ("m18", "C09", "core.py", "            self.__end_model_execution = time.time()\n            self.__has_model_executed = True\n            self.__has_model_finished = False\n            return True",
  "            self.__end_model_execution = time.time()\n            self.__has_model_executed = True\n            self.__has_model_finished = num_steps > 300\n            return True",
  "a long step call reports the model finished although it is not"),
 ("m19", "C10", "initialize/compute_crop_calendar.py", "def compute_crop_calendar(\n    crop: \"Crop\",", "_CACHE = {}\n\n\ndef compute_crop_calendar(\n    crop: \"Crop\",",
  "placeholder (see m19b)"),
 ("m20", "C10", "entities/groundWater.py", "        self.dates = dates\n", "        dates.append(\"x\") if False else None\n        self.dates = dates\n",
  "placeholder no-op (control: must NOT fire)"),
 ("m21", "C11", "initialize/read_model_parameters.py", "        new_harvest_date = str(harv.month) + \"/\" + str(harv.day)\n        crop.harvest_date = new_harvest_date\n",
  "        new_harvest_date = str(harv.month) + \"/\" + str(harv.day)\n        crop.harvest_date = new_harvest_date\n        crop.planting_date = str(plant.month) + \"/\" + str(plant.day + (1 if plant.day < 28 else 0))\n",
  "the user's planting date drifts by one day per initialisation"),
 ("m22", "C12", "solution/groundwater_inflow.py", "                NewCond.th[ii] = prof.th_s[ii]\n", "                NewCond.th[ii] = prof.th_s[ii]\n                prof.th_fc[ii] = prof.th_fc[ii]\n",
  "idempotent write into a profile array while stepping"),
 ("m23", "C13", "solution/irrigation.py", "            if nDays % IrrMngt_IrrInterval == 0:", "            if nDays % IrrMngt_IrrInterval == (1 if IrrMngt_IrrInterval > 7 else 0):",
  "long intervals irrigate one day late"),
 ("m24", "C13", "solution/irrigation.py", "            Irr = IrrMngt_Schedule[idx]\n", "            Irr = IrrMngt_Schedule[min(idx + 1, len(IrrMngt_Schedule) - 1)]\n",
  "schedule looked up for tomorrow"),
 ("m25", "C13", "solution/irrigation.py", "    if NewCond_IrrCum + Irr > IrrMngt_MaxIrrSeason:", "    if NewCond_IrrCum > IrrMngt_MaxIrrSeason:",
  "seasonal cap tested before adding today's application"),
 ("m26", "C14", "core.py", "    return _weather[time_step_counter]\n", "    return _weather[min(time_step_counter + 1, len(_weather) - 1)]\n",
  "the time step reads tomorrow's weather row"),
 ("m27", "C15", "core.py", "        self._weather = self.weather_df[\n            [\"MinTemp\", \"MaxTemp\", \"Precipitation\", \"ReferenceET\", \"Date\"]\n        ].values",
  "        self._weather = self.weather_df.values", "revert of the D10 repair"),
 ("m28", "C16", "solution/transpiration.py", "            else:\n                # No adjustment of the stomatal stress threshold for et0\n                p_up_sto = Crop.p_up[1]\n", "",
  "revert of the D6 repair"),
 ("m29", "C17", "solution/water_stress.py", "        Ks[ii] = 1 - ((np.exp(Drel[ii] * Crop_fshape_w[ii]) - 1) / (np.exp(Crop_fshape_w[ii]) - 1))",
  "        Ks[ii] = 1 - ((np.exp(Drel[ii] * Crop_fshape_w[ii]) - 1) / (np.exp(Crop_fshape_w[ii]) - 1.05))",
  "water-stress curve leaves [0,1] slightly"),
 ("m30", "C17", "solution/growing_degree_day.py", "        temp_min = min(temp_min, Tupp)\n        Tmean = (temp_max + temp_min) / 2\n        Tmean = max(Tmean, Tbase)",
  "        temp_min = min(temp_min, Tupp)\n        Tmean = (temp_max + temp_min) / 2\n        Tmean = max(Tmean, Tbase - 1)",
  "method-3 degree days can be negative"),
 ("m31", "C18", "entities/soil.py", "                (round(thickness + last, 2) >= round(self.profile.dzsum, 2))", "                (thickness + last >= self.profile.dzsum)",
  "revert of the D19 repair"),
 ("m32", "C18", "initialize/read_model_initial_conditions.py", "                values[ii] = compdf.th_wp + ((value / 100) * (compdf.th_fc - compdf.th_wp))\n            elif methodstr == \"Layer\":",
  "                values[ii] = compdf.th_wp + ((value / 100) * (compdf.th_s - compdf.th_wp))\n            elif methodstr == \"Layer\":",
  "percentage by depth taken of saturation instead of field capacity"),
 ("m33", "C19", "initialize/read_groundwater_table.py", "                    z_gw.loc[z_gw.index >= date] = depth\n", "                    z_gw.loc[z_gw.index > date] = depth\n",
  "constant table: a new observation applies from the day after"),
 ("m34", "C19", "solution/capillary_rise.py", "            dth = round(NewCond.th_fc_Adj[compi] - NewCond.th[compi],4)", "            dth = round(NewCond.th_fc_Adj[compi] - NewCond.th[compi],4) + 0.01",
  "capillary rise may overfill by 0.01 m3/m3"),
 ("m35", "C20", "timestep/run_single_timestep.py", "        FieldMngt.curve_number_adj_pct if FieldMngt.curve_number_adj else 0,", "        FieldMngt.curve_number_adj_pct,",
  "revert of the D15 repair"),
 ("m36", "C20", "solution/soil_evaporation.py", "        if not FieldMngt_Mulches:\n            # No mulches present\n            EsPotMul = EsPot\n",
  "        if not FieldMngt_Mulches:\n            # No mulches present\n            EsPotMul = EsPot * (1 - 0.001 * FieldMngt_fMulch)\n",
  "mulch factor has a tiny effect although mulches are off"),
 ("m37", "C12", "solution/rainfall_partition.py", "                dzsum_ii = min(prof.dzsum[ii], Soil_zCN)\n", "                dzsum_ii = min(prof.dzsum[ii], Soil_zCN)\n                prof.dzsum[ii] = dzsum_ii\n",
  "revert of the D1 repair (profile depths overwritten)"),
 ("m38", "C01", "solution/pre_irrigation.py", "                    PreIrr = PreIrr + ((thCrit - NewCond.th[ii]) * 1000 * prof.dz[ii])", "                    PreIrr = PreIrr + ((thCrit - NewCond.th[ii]) * 1000 * prof.dz[0])",
  "pre-irrigation depth computed with the first compartment's thickness"),
 ("m39", "C04", "solution/irrigation.py", "        Irr = max(0, Irr)\n", "        Irr = Irr\n", "negative scheduled irrigation not clipped (no effect expected: schedule >= 0) - control"),
 ("m40", "C03", "solution/groundwater_inflow.py", "                NewCond.th[ii] = prof.th_s[ii]\n", "                NewCond.th[ii] = prof.th_s[ii] + 0.001\n",
  "groundwater inflow over-saturates by 0.001"),
]
SKIP = {"m19", "m20", "m39"}


def apply(dst, rel, old, new):
    path = os.path.join(dst, "aquacrop", rel)
    raw = open(path, newline="").read()
    crlf = "\r\n" in raw
    s = raw.replace("\r\n", "\n")
    if s.count(old) != 1:
        return f"snippet occurs {s.count(old)} times"
    s = s.replace(old, new)
    open(path, "w", newline="").write(s.replace("\n", "\r\n") if crlf else s)
    return None


def run(m, scale):
    mid, prop, rel, old, new, desc = m
    tmp = tempfile.mkdtemp(prefix="vfself-")
    try:
        dst = os.path.join(tmp, "repo")
        shutil.copytree(os.path.join(REPO, "aquacrop"), os.path.join(dst, "aquacrop"),
                        ignore=lambda d, names: [n for n in names if n == "__pycache__" or (os.path.basename(d) == "aquacrop" and n == "data")])
        os.symlink(os.path.join(REPO, "aquacrop", "data"), os.path.join(dst, "aquacrop", "data"))
        err = apply(dst, rel, old, new)
        if err:
            return dict(id=mid, property=prop, result="patch-failed", detail=err)
        r = subprocess.run([sys.executable, "-c", "import sys; sys.path.insert(0, %r); import aquacrop" % dst], capture_output=True, text=True)
        if r.returncode != 0:
            return dict(id=mid, property=prop, result="does-not-import", detail=r.stderr[-300:])
        t0 = time.time()
        env = dict(os.environ, VERIF_REPO=dst)
        p = subprocess.run([os.path.join(ROOT, "check"), prop, "--tier", "quick", "--scale", str(scale)],
                           env=env, capture_output=True, text=True, cwd=ROOT)
        first = [l for l in p.stdout.splitlines() if l.strip().startswith("clause=")][:1]
        return dict(id=mid, property=prop, description=desc, file=rel, exit=p.returncode,
                    result="caught" if p.returncode == 1 else ("inconclusive" if p.returncode == 2 else "MISSED"),
                    first=first[0].strip()[:200] if first else "", wall=round(time.time() - t0, 1))
    finally:
        shutil.rmtree(tmp, ignore_errors=True)


def main():
    ap = argparse.ArgumentParser()
    ap.add_argument("--only", default="")
    ap.add_argument("--scale", type=float, default=0.5)
    a = ap.parse_args()
    only = set(a.only.split(",")) if a.only else None
    out = []
    for m in M:
        if m[0] in SKIP or (only and m[0] not in only):
            continue
        r = run(m, a.scale)
        out.append(r)
        print(json.dumps(r))
        sys.stdout.flush()
    path = os.path.join(ROOT, "selftest_results.json")
    prev = {}
    if os.path.exists(path) and only:
        prev = {r["id"]: r for r in json.load(open(path))}
    for r in out:
        prev[r["id"]] = r
    json.dump(sorted(prev.values(), key=lambda r: r["id"]), open(path, "w"), indent=1)
    missed = [r["id"] for r in out if r["result"] != "caught"]
    print("not caught:", missed)


if __name__ == "__main__":
    main()
