#!/venv/bin/python
"""Regenerate the sensitivity tables of DESIGN.md (between the BEGIN/END markers) from
seeded/*/meta.json and selftest_results.json."""
import glob
import json
import os
import re

ROOT = os.path.dirname(os.path.dirname(os.path.abspath(__file__)))


def seeded_table():
    rows = ["| id | breaks | what was changed (independent sub-agent) | needs to manifest | confirmed | caught by | first witness |",
            "|---|---|---|---|---|---|---|"]
    for mp in sorted(glob.glob(os.path.join(ROOT, "seeded", "*", "meta.json"))):
        m = json.load(open(mp))
        ev = m.get("evaluation", {})
        name = os.path.basename(os.path.dirname(mp))
        caught = [f"{c} ({v['result']})" for c, v in sorted(ev.get("checks", {}).items())]
        first = ""
        for c, v in sorted(ev.get("checks", {}).items()):
            if v["result"] == "caught" and v.get("first"):
                first = v["first"][0].replace("clause=", "").replace("|", "/")[:110]
                break
        if m.get("not_a_violation"):
            caught.append("judged not to violate the property as stated (see meta.json)")
        elif m.get("neutralised"):
            caught.append("no longer a violation since a later repository fix (see meta.json)")
        conf = "yes" if ev.get("confirmed") else f"NO (demo {ev.get('demo_without')}/{ev.get('demo_with')}, tests: {ev.get('repo_tests')})"
        summ = str(m.get("summary", "")).replace("|", "/").replace("\n", " ")[:260]
        needs = str(m.get("needs", "")).replace("|", "/").replace("\n", " ")[:220]
        rows.append(f"| {name} | {m.get('breaks_property')} | {summ} | {needs} | {conf} | {', '.join(caught)} | {first} |")
    return "\n".join(rows)


def selftest_table():
    p = os.path.join(ROOT, "selftest_results.json")
    if not os.path.exists(p):
        return "(not run)"
    rows = ["| id | property | edit | result | first witness |", "|---|---|---|---|---|"]
    for r in json.load(open(p)):
        rows.append(f"| {r['id']} | {r['property']} | {r.get('description', '')} (`{r.get('file', '')}`) | {r['result']} | "
                    f"{r.get('first', '').replace('clause=', '').replace('|', '/')[:100]} |")
    return "\n".join(rows)


def main():
    p = os.path.join(ROOT, "DESIGN.md")
    s = open(p).read()
    for tag, fn in (("SEEDED", seeded_table), ("SELFTEST", selftest_table)):
        a, b = f"<!-- BEGIN {tag} -->", f"<!-- END {tag} -->"
        if a in s and b in s:
            s = re.sub(re.escape(a) + r".*?" + re.escape(b), lambda m: a + "\n" + fn() + "\n" + b, s, flags=re.S)
    open(p, "w").write(s)
    print("DESIGN.md tables refreshed")


if __name__ == "__main__":
    main()
