#!/venv/bin/python
"""Print observed coverage counters vs. floors of the last run of every check (ratio < 3 flagged)."""
import json, glob, sys
for f in sorted(glob.glob('/verif/evidence/C*.json')):
    e = json.load(open(f)); c = e['coverage']
    obs, fl = c['observed'], c.get('floors', {})
    line = []
    for k, v in fl.items():
        o = obs.get(k, 0)
        r = o / v if v else 99
        if r < 3 or '-a' in sys.argv:
            line.append(f"{k}={o}/{v}({r:.1f}x)")
    print(e['property_id'], e['tier'], 'wall', e['wall_s'], ' '.join(line))
